// Package simrt is the runtime half of the map-iteration seam (S1).
//
// cmd/maprw rewrites every `for ... range <map>` of a scratch copy of coca into
// `for _, k := range simrt.Keys(m, site)`.  Keys returns the map's keys in the
// order the process's schedule prescribes for this iteration event.  The
// schedule is explicit data installed once by simproc before the first
// operation; nothing here reads a clock or a random source, and logging never
// influences a decision.
package simrt

import (
	"fmt"
	"os"
	"sort"
	"strconv"
	"sync"
)

// The fidelity self-test runs coca's own test suite on the rewritten copy, where no simproc
// installs a schedule: the default schedule can be chosen through the environment.
func init() {
	if t := os.Getenv("VERIFSIM_TAIL"); t != "" {
		sched.Tail = t
		if s := os.Getenv("VERIFSIM_SEED"); s != "" {
			sched.Seed, _ = strconv.ParseUint(s, 10, 64)
		}
	}
}

type Schedule struct {
	// Codes[k] selects the permutation of the k-th iteration event:
	// 0 canonical (sorted), 1 reverse, 2 rotate by one, 3 swap first two,
	// 4 swap last two, >=5 Fisher-Yates from splitmix64(Seed, k, code).
	Codes []int `json:"codes"`
	// Tail decides events beyond len(Codes): "sorted", "reverse", "seeded" (every
	// event shuffled), "rotate" (seeded rotation only, what today's runtime
	// could do for small maps), "sparse" (Pct percent of events shuffled),
	// "site" (only events at Site are shuffled).
	Tail string `json:"tail"`
	Seed uint64 `json:"seed"`
	Pct  int    `json:"pct,omitempty"`
	Site string `json:"site,omitempty"`
	// SiteCode is the permutation code used at Site in "site" mode (0 = seeded shuffle, 1 = reverse ...)
	SiteCode int `json:"site_code,omitempty"`
}

type Event struct {
	K    int    `json:"k"`
	Site string `json:"site"`
	N    int    `json:"n"`
	Code int    `json:"code"`
}

type ordered interface {
	~string | ~int | ~int8 | ~int16 | ~int32 | ~int64 | ~uint | ~uint8 | ~uint16 | ~uint32 | ~uint64
}

const maxLog = 4000

var (
	mu       sync.Mutex
	sched    = Schedule{Tail: "sorted"}
	events   int
	nonCanon int // events that ran under a non-identity permutation of >=2 keys
	log      []Event
	hash     uint64 = 0xcbf29ce484222325
	sites           = map[string]int{}
)

// Install sets the schedule of this process. Called once, before any operation.
func Install(s Schedule) {
	mu.Lock()
	defer mu.Unlock()
	if s.Tail == "" {
		s.Tail = "sorted"
	}
	sched = s
}

// Snapshot returns the event log (first maxLog events), the number of events,
// the number of non-canonical events, a hash over all events and the per-site counts.
func Snapshot() (evs []Event, total int, perm int, h uint64, perSite map[string]int) {
	mu.Lock()
	defer mu.Unlock()
	ps := make(map[string]int, len(sites))
	for k, v := range sites { // not a coca loop: order irrelevant (copied into a map)
		ps[k] = v
	}
	return append([]Event(nil), log...), events, nonCanon, hash, ps
}

func splitmix(x uint64) uint64 {
	x += 0x9e3779b97f4a7c15
	x = (x ^ (x >> 30)) * 0xbf58476d1ce4e5b9
	x = (x ^ (x >> 27)) * 0x94d049bb133111eb
	return x ^ (x >> 31)
}

func fnv(h uint64, s string) uint64 {
	for i := 0; i < len(s); i++ {
		h ^= uint64(s[i])
		h *= 0x100000001b3
	}
	return h
}

func siteHash(s string) uint64 { return fnv(0xcbf29ce484222325, s) }

// decide returns the permutation code of event k at site with n keys.
func decide(k int, site string, n int) int {
	if k < len(sched.Codes) {
		return sched.Codes[k]
	}
	switch sched.Tail {
	case "sorted":
		return 0
	case "reverse":
		return 1
	case "seeded":
		return 5
	case "rotate":
		return 6
	case "sparse":
		if int(splitmix(sched.Seed^uint64(k)*0x9e3779b97f4a7c15)%100) < sched.Pct {
			return 5
		}
		return 0
	case "site":
		if site == sched.Site {
			if sched.SiteCode > 0 {
				return sched.SiteCode
			}
			return 5
		}
		return 0
	}
	panic(fmt.Sprintf("simrt: unknown tail mode %q", sched.Tail))
}

func permute[K any](keys []K, code int, k int) bool {
	n := len(keys)
	if n < 2 {
		return false
	}
	switch code {
	case 0:
		return false
	case 1:
		for i, j := 0, n-1; i < j; i, j = i+1, j-1 {
			keys[i], keys[j] = keys[j], keys[i]
		}
	case 2:
		first := keys[0]
		copy(keys, keys[1:])
		keys[n-1] = first
	case 3:
		keys[0], keys[1] = keys[1], keys[0]
	case 4:
		keys[n-1], keys[n-2] = keys[n-2], keys[n-1]
	case 6:
		r := int(splitmix(sched.Seed^uint64(k)*0x100000001b3) % uint64(n))
		if r == 0 {
			return false
		}
		tmp := append(append(make([]K, 0, n), keys[r:]...), keys[:r]...)
		copy(keys, tmp)
	default:
		s := splitmix(sched.Seed ^ uint64(k)*0x100000001b3 ^ uint64(code)<<48)
		changed := false
		for i := n - 1; i > 0; i-- {
			s = splitmix(s)
			j := int(s % uint64(i+1))
			if i != j {
				changed = true
			}
			keys[i], keys[j] = keys[j], keys[i]
		}
		return changed
	}
	return true
}

func record(site string, n int, code int, changed bool) {
	k := events
	events++
	if changed {
		nonCanon++
	}
	sites[site]++
	hash = fnv(hash, fmt.Sprintf("%d|%s|%d|%d;", k, site, n, code))
	if len(log) < maxLog {
		log = append(log, Event{k, site, n, code})
	}
}

// Keys returns the keys of m in the order the schedule prescribes for this
// iteration event.
func Keys[K ordered, V any](m map[K]V, site string) []K {
	keys := make([]K, 0, len(m))
	for k := range m {
		keys = append(keys, k)
	}
	sort.Slice(keys, func(i, j int) bool { return keys[i] < keys[j] })
	mu.Lock()
	defer mu.Unlock()
	code := decide(events, site, len(keys))
	changed := permute(keys, code, events)
	record(site, len(keys), code, changed)
	return keys
}

// KeysAny is Keys for key types without a native order: canonical order is the
// order of the keys' %#v rendering.
func KeysAny[K comparable, V any](m map[K]V, site string) []K {
	keys := make([]K, 0, len(m))
	for k := range m {
		keys = append(keys, k)
	}
	sort.Slice(keys, func(i, j int) bool { return fmt.Sprintf("%#v", keys[i]) < fmt.Sprintf("%#v", keys[j]) })
	mu.Lock()
	defer mu.Unlock()
	code := decide(events, site, len(keys))
	changed := permute(keys, code, events)
	record(site, len(keys), code, changed)
	return keys
}
