// maprw installs the map-iteration seam (S1) in a scratch copy of a Go module:
// every `for ... range <map>` in non-test, non-generated packages is rewritten
// so that the iteration order comes from simrt.Keys (see DESIGN.md Appendix D).
//
// usage: maprw <module dir> [skip-substring ...]
//
// It prints one line per rewritten site ("<pkg-relative file>:<line>") on
// stdout and exits 2 on any shape it does not support: a seam that silently
// skips a loop would leave a source of nondeterminism outside the simulator.
package main

import (
	"bytes"
	"fmt"
	"go/ast"
	"go/format"
	"go/token"
	"go/types"
	"os"
	"path/filepath"
	"sort"
	"strings"

	"golang.org/x/tools/go/ast/astutil"
	"golang.org/x/tools/go/packages"
)

const simrtPath = "verifsim.local/simrt"

func die(f string, a ...interface{}) {
	fmt.Fprintf(os.Stderr, "maprw: "+f+"\n", a...)
	os.Exit(2)
}

// pure reports whether evaluating e twice is harmless (no calls, no receives).
func pure(e ast.Expr) bool {
	switch x := e.(type) {
	case *ast.Ident, *ast.BasicLit:
		return true
	case *ast.SelectorExpr:
		return pure(x.X)
	case *ast.IndexExpr:
		return pure(x.X) && pure(x.Index)
	case *ast.ParenExpr:
		return pure(x.X)
	case *ast.StarExpr:
		return pure(x.X)
	}
	return false
}

func isBlank(e ast.Expr) bool {
	if e == nil {
		return true
	}
	id, ok := e.(*ast.Ident)
	return ok && id.Name == "_"
}

func keyFunc(kt types.Type, pos token.Position) string {
	switch u := kt.Underlying().(type) {
	case *types.Basic:
		if u.Info()&(types.IsString|types.IsInteger) != 0 {
			return "Keys"
		}
		if u.Info()&(types.IsBoolean|types.IsFloat) != 0 {
			return "KeysAny"
		}
	case *types.Struct, *types.Array:
		// rendering with %#v is stable only if no pointers are inside
		if !hasPointer(kt, 0) {
			return "KeysAny"
		}
	}
	die("%s: unsupported map key type %s", pos, kt)
	return ""
}

func hasPointer(t types.Type, depth int) bool {
	if depth > 6 {
		return true
	}
	switch u := t.Underlying().(type) {
	case *types.Basic:
		return u.Kind() == types.UnsafePointer
	case *types.Struct:
		for i := 0; i < u.NumFields(); i++ {
			if hasPointer(u.Field(i).Type(), depth+1) {
				return true
			}
		}
		return false
	case *types.Array:
		return hasPointer(u.Elem(), depth+1)
	}
	return true // pointers, interfaces, channels ...
}

func main() {
	if len(os.Args) < 2 {
		die("usage: maprw <module dir> [skip-substring ...]")
	}
	dir, err := filepath.Abs(os.Args[1])
	if err != nil {
		die("%v", err)
	}
	skips := os.Args[2:]
	cfg := &packages.Config{
		Mode: packages.NeedName | packages.NeedFiles | packages.NeedCompiledGoFiles | packages.NeedSyntax |
			packages.NeedTypes | packages.NeedTypesInfo | packages.NeedImports | packages.NeedDeps,
		Dir:   dir,
		Tests: false,
	}
	pkgs, err := packages.Load(cfg, "./...")
	if err != nil {
		die("load: %v", err)
	}
	if len(pkgs) == 0 {
		die("no packages under %s", dir)
	}
	var sites []string
	for _, p := range pkgs {
		if len(p.Errors) > 0 {
			die("package %s: %v", p.PkgPath, p.Errors)
		}
		skip := false
		for _, s := range skips {
			if strings.Contains(p.PkgPath+"/", s) {
				skip = true
			}
		}
		if skip {
			continue
		}
		for i, f := range p.Syntax {
			fname := p.CompiledGoFiles[i]
			if !strings.HasPrefix(fname, dir+string(filepath.Separator)) {
				die("file outside module: %s", fname)
			}
			changed := false
			n := 0
			// labels attached to range statements we would have to hoist are not supported
			labeled := map[ast.Stmt]bool{}
			ast.Inspect(f, func(nd ast.Node) bool {
				if ls, ok := nd.(*ast.LabeledStmt); ok {
					labeled[ls.Stmt] = true
				}
				return true
			})
			astutil.Apply(f, func(c *astutil.Cursor) bool {
				rs, ok := c.Node().(*ast.RangeStmt)
				if !ok {
					return true
				}
				t := p.TypesInfo.TypeOf(rs.X)
				if t == nil {
					die("%s: no type for range expression", p.Fset.Position(rs.Pos()))
				}
				var mt *types.Map
				switch u := t.Underlying().(type) {
				case *types.Map:
					mt = u
				case *types.Pointer:
					_ = u
					return true
				default:
					return true
				}
				pos := p.Fset.Position(rs.Pos())
				var hoist ast.Stmt
				mapExpr := rs.X
				if !pure(rs.X) {
					// a call yielding a map: evaluate it once into a temporary in an enclosing block
					if labeled[rs] {
						die("%s: labelled range over impure map expression", pos)
					}
					tmp := ast.NewIdent(fmt.Sprintf("simM%d", n+1))
					hoist = &ast.AssignStmt{Lhs: []ast.Expr{tmp}, Tok: token.DEFINE, Rhs: []ast.Expr{rs.X}}
					mapExpr = tmp
				}
				fn := keyFunc(mt.Key(), pos)
				rel, _ := filepath.Rel(dir, pos.Filename)
				site := fmt.Sprintf("%s:%d", filepath.ToSlash(rel), pos.Line)
				sites = append(sites, site)
				n++
				keyName := fmt.Sprintf("simK%d", n)
				okName := fmt.Sprintf("simOk%d", n)

				var pre []ast.Stmt
				keyIsUserVar := !isBlank(rs.Key)
				loopVar := ast.Expr(ast.NewIdent(keyName))
				if keyIsUserVar && rs.Tok == token.DEFINE {
					id, ok := rs.Key.(*ast.Ident)
					if !ok {
						die("%s: range key is not an identifier", pos)
					}
					loopVar = id
					keyName = id.Name
				} else if keyIsUserVar && rs.Tok == token.ASSIGN {
					pre = append(pre, &ast.AssignStmt{Lhs: []ast.Expr{rs.Key}, Tok: token.ASSIGN, Rhs: []ast.Expr{ast.NewIdent(keyName)}})
				}
				idx := &ast.IndexExpr{X: mapExpr, Index: ast.NewIdent(keyName)}
				if !isBlank(rs.Value) {
					if rs.Tok == token.DEFINE {
						pre = append(pre, &ast.AssignStmt{Lhs: []ast.Expr{rs.Value, ast.NewIdent(okName)}, Tok: token.DEFINE, Rhs: []ast.Expr{idx}})
					} else {
						pre = append(pre, &ast.DeclStmt{Decl: &ast.GenDecl{Tok: token.VAR, Specs: []ast.Spec{&ast.ValueSpec{Names: []*ast.Ident{ast.NewIdent(okName)}, Type: ast.NewIdent("bool")}}}})
						pre = append(pre, &ast.AssignStmt{Lhs: []ast.Expr{rs.Value, ast.NewIdent(okName)}, Tok: token.ASSIGN, Rhs: []ast.Expr{idx}})
					}
				} else {
					pre = append(pre, &ast.AssignStmt{Lhs: []ast.Expr{ast.NewIdent("_"), ast.NewIdent(okName)}, Tok: token.DEFINE, Rhs: []ast.Expr{idx}})
				}
				// an entry removed during the iteration is not produced (Go spec)
				pre = append(pre, &ast.IfStmt{Cond: &ast.UnaryExpr{Op: token.NOT, X: ast.NewIdent(okName)},
					Body: &ast.BlockStmt{List: []ast.Stmt{&ast.BranchStmt{Tok: token.CONTINUE}}}})
				newRange := &ast.RangeStmt{
					For:   rs.For,
					Key:   ast.NewIdent("_"),
					Value: loopVar,
					Tok:   token.DEFINE,
					X: &ast.CallExpr{Fun: &ast.SelectorExpr{X: ast.NewIdent("simrt"), Sel: ast.NewIdent(fn)},
						Args: []ast.Expr{mapExpr, &ast.BasicLit{Kind: token.STRING, Value: fmt.Sprintf("%q", site)}}},
					Body: &ast.BlockStmt{Lbrace: rs.Body.Lbrace, List: append(pre, rs.Body.List...), Rbrace: rs.Body.Rbrace},
				}
				if hoist != nil {
					c.Replace(&ast.BlockStmt{List: []ast.Stmt{hoist, newRange}})
				} else {
					c.Replace(newRange)
				}
				changed = true
				return true
			}, nil)
			if changed {
				astutil.AddImport(p.Fset, f, simrtPath)
				var buf bytes.Buffer
				if err := format.Node(&buf, p.Fset, f); err != nil {
					die("format %s: %v", fname, err)
				}
				if err := os.WriteFile(fname, buf.Bytes(), 0644); err != nil {
					die("write: %v", err)
				}
			}
		}
	}
	sort.Strings(sites)
	for _, s := range sites {
		fmt.Println(s)
	}
	fmt.Fprintf(os.Stderr, "maprw: rewrote %d sites under %s\n", len(sites), dir)
}
