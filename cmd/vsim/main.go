// vsim is the driver of the deterministic simulation of coca processes.
//
//	vsim check <id> [--tier quick|thorough]   explore one property, write evidence, report violations
//	vsim replay <file>                         re-execute a replay file (no PRNG involved)
//
// Environment: VERIF_SEED (default 1), VERIF_TIER, VERIF_REPO (default /repo),
// VERIF_SCRATCH (default /var/tmp), VERIF_WORKERS, VERIF_SCENARIOS, VERIF_KEEP,
// VERIF_MINIMISE=0 (report violations as found, without shrinking: regression runs over stored changes).
// Exit status: 0 property held on everything explored; 1 violation (with a
// `VIOLATION property=<id> replay=<path>` line); 2 the machinery itself failed.
package main

import (
	"encoding/json"
	"errors"
	"fmt"
	"os"
	"path/filepath"
	"runtime"
	"strconv"

	"verif/internal/props"
	"verif/internal/sim"
	"verif/internal/tape"
)

func verifDir() string {
	if d := os.Getenv("VERIF_DIR"); d != "" {
		return d
	}
	exe, err := os.Executable()
	if err == nil {
		d := filepath.Dir(filepath.Dir(exe)) // <verif>/bin/vsim
		if _, err := os.Stat(filepath.Join(d, "properties.jsonl")); err == nil {
			return d
		}
	}
	wd, _ := os.Getwd()
	return wd
}

func repoDir() string {
	if d := os.Getenv("VERIF_REPO"); d != "" {
		return d
	}
	return "/repo"
}

func die(code int, f string, a ...interface{}) {
	fmt.Fprintf(os.Stderr, "vsim: "+f+"\n", a...)
	os.Exit(code)
}

func main() {
	if len(os.Args) < 3 {
		die(2, "usage: vsim check <id> [--tier quick|thorough] | vsim replay <file> | vsim selftest <name>")
	}
	props.FixtureDir = filepath.Join(repoDir(), "_fixtures")
	switch os.Args[1] {
	case "check":
		id := os.Args[2]
		tier := os.Getenv("VERIF_TIER")
		for i := 3; i < len(os.Args); i++ {
			if os.Args[i] == "--tier" && i+1 < len(os.Args) {
				tier = os.Args[i+1]
			}
		}
		if tier == "" {
			tier = "quick"
		}
		if tier != "quick" && tier != "thorough" {
			die(2, "unknown tier %q", tier)
		}
		prop, ok := props.All()[id]
		if !ok {
			die(2, "property %s is not claimed (see MANIFEST.json not_applicable)", id)
		}
		seed := uint64(1)
		if s := os.Getenv("VERIF_SEED"); s != "" {
			v, err := strconv.ParseInt(s, 10, 64)
			if err != nil {
				die(2, "VERIF_SEED: %v", err)
			}
			seed = uint64(v)
		}
		workers := runtime.NumCPU()
		if s := os.Getenv("VERIF_WORKERS"); s != "" {
			workers, _ = strconv.Atoi(s)
		}
		if workers < 1 {
			workers = 1
		}
		fmt.Printf("vsim: property %s tier %s VERIF_SEED=%d workers=%d repo=%s\n", id, tier, seed, workers, repoDir())
		env, err := sim.Build(verifDir(), repoDir(), id, false)
		if err != nil {
			die(2, "%v", err)
		}
		res, err := sim.Check(env, prop, tier, seed, workers)
		env.Close()
		if err != nil {
			var he *sim.HarnessError
			if errors.As(err, &he) {
				die(2, "harness failure: %v", err)
			}
			die(2, "%v", err)
		}
		os.Exit(res.Exit)
	case "replay":
		path := os.Args[2]
		b, err := os.ReadFile(path)
		if err != nil {
			die(2, "%v", err)
		}
		var rf sim.ReplayFile
		if err := json.Unmarshal(b, &rf); err != nil {
			die(2, "replay file: %v", err)
		}
		prop, ok := props.All()[rf.Property]
		if !ok {
			die(2, "replay file names unknown property %q", rf.Property)
		}
		plain := false
		for _, a := range os.Args[3:] {
			if a == "--plain" {
				plain = true
			}
		}
		env, err := sim.Build(verifDir(), repoDir(), rf.Property+"r", plain)
		if err != nil {
			die(2, "%v", err)
		}
		code, err := sim.Replay(env, prop, &rf, path)
		env.Close()
		if err != nil {
			die(2, "%v", err)
		}
		os.Exit(code)
	case "gen":
		// vsim gen <id> <index> [tier]: print the materialised scenario of one index as a replay file
		prop, ok := props.All()[os.Args[2]]
		if !ok || len(os.Args) < 4 {
			die(2, "usage: vsim gen <id> <index> [tier]")
		}
		idx, _ := strconv.Atoi(os.Args[3])
		tier := "quick"
		if len(os.Args) > 4 {
			tier = os.Args[4]
		}
		seed := uint64(1)
		if s := os.Getenv("VERIF_SEED"); s != "" {
			v, _ := strconv.ParseInt(s, 10, 64)
			seed = uint64(v)
		}
		sc := prop.Generate(tape.New(tape.Derive(seed, uint64(idx))), tier)
		b, _ := json.Marshal(sc)
		rf := sim.ReplayFile{Property: prop.ID(), Tier: tier, VerifSeed: seed, Index: idx, Seed: tape.Derive(seed, uint64(idx)), Scenario: b}
		o, _ := json.MarshalIndent(rf, "", " ")
		fmt.Println(string(o))
	case "selftest":
		// vsim selftest determinism <id> [scenarios] [repeats]
		if os.Args[2] != "determinism" || len(os.Args) < 4 {
			die(2, "usage: vsim selftest determinism <id> [scenarios] [repeats]")
		}
		prop, ok := props.All()[os.Args[3]]
		if !ok {
			die(2, "unknown property")
		}
		scen, reps := 20, 30
		if len(os.Args) > 4 {
			scen, _ = strconv.Atoi(os.Args[4])
		}
		if len(os.Args) > 5 {
			reps, _ = strconv.Atoi(os.Args[5])
		}
		env, err := sim.Build(verifDir(), repoDir(), os.Args[3]+"d", false)
		if err != nil {
			die(2, "%v", err)
		}
		code, err := sim.Determinism(env, prop, "quick", 1, scen, reps, runtime.NumCPU())
		env.Close()
		if err != nil {
			die(2, "%v", err)
		}
		os.Exit(code)
	default:
		die(2, "unknown command %q", os.Args[1])
	}
}
