#!/bin/bash
# Build the framework from files on disk only (offline).
set -e
cd "$(dirname "$0")"
export GOFLAGS=-mod=mod GOPROXY=off GOSUMDB=off GOTOOLCHAIN=local CGO_ENABLED=0
mkdir -p bin evidence replays
go build -trimpath -o bin/vsim ./cmd/vsim
go build -trimpath -o bin/maprw ./cmd/maprw
echo "setup: built bin/vsim bin/maprw with $(go version)"
