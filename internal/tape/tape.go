// Package tape is the single source of choices of the simulator.
//
// Every decision of a simulated run (workload, operation history, file
// delivery order, restarts, map-iteration schedule) is one bounded draw from a
// Tape.  In generation mode the draws come from a splitmix64 stream seeded by
// one integer and are recorded; in replay mode they are read back from a
// recorded sequence (values are reduced modulo the bound, reads past the end
// yield 0).  That makes "one seed = one execution", and it makes shrinking a
// generic operation on the recorded sequence: delete spans, zero values,
// lower values — every candidate is again a valid choice sequence.
//
// Nothing in here reads a clock or any other source of randomness.
package tape

// Splitmix64 is the mixing function used for every derived seed.
func Splitmix64(x uint64) uint64 {
	x += 0x9e3779b97f4a7c15
	x = (x ^ (x >> 30)) * 0xbf58476d1ce4e5b9
	x = (x ^ (x >> 27)) * 0x94d049bb133111eb
	return x ^ (x >> 31)
}

// Derive derives a sub-seed from a seed and an index.
func Derive(seed uint64, idx uint64) uint64 {
	return Splitmix64(Splitmix64(seed) ^ Splitmix64(idx*0x9e3779b97f4a7c15+0x1234567))
}

type Tape struct {
	state  uint64
	replay []uint64
	isRep  bool
	pos    int
	Rec    []uint64 // values as consumed (already reduced)
}

func New(seed uint64) *Tape { return &Tape{state: Splitmix64(seed ^ 0xc0ca)} }

func Replay(vals []uint64) *Tape { return &Tape{replay: vals, isRep: true} }

func (t *Tape) next() uint64 {
	if t.isRep {
		if t.pos < len(t.replay) {
			v := t.replay[t.pos]
			t.pos++
			return v
		}
		t.pos++
		return 0
	}
	t.state += 0x9e3779b97f4a7c15
	z := t.state
	z = (z ^ (z >> 30)) * 0xbf58476d1ce4e5b9
	z = (z ^ (z >> 27)) * 0x94d049bb133111eb
	return z ^ (z >> 31)
}

// Uint draws a value in [0, n). n == 0 yields 0 without consuming.
func (t *Tape) Uint(n uint64) uint64 {
	if n <= 1 {
		// still record, so that structure stays aligned between bounds of 1 and more
		t.next()
		t.Rec = append(t.Rec, 0)
		return 0
	}
	v := t.next() % n
	t.Rec = append(t.Rec, v)
	return v
}

// Int draws in [lo, hi] inclusive; smaller draws map to smaller values.
func (t *Tape) Int(lo, hi int) int {
	if hi <= lo {
		t.Uint(1)
		return lo
	}
	return lo + int(t.Uint(uint64(hi-lo+1)))
}

// Bool is true with probability num/den; a zero draw is false (shrinks to false).
func (t *Tape) Bool(num, den int) bool {
	v := t.Uint(uint64(den))
	return int(v) >= den-num
}

// Pick draws an index in [0,n).
func (t *Tape) Pick(n int) int { return int(t.Uint(uint64(n))) }

// Perm draws a permutation of n elements; all-zero draws give the identity.
func (t *Tape) Perm(n int) []int {
	p := make([]int, n)
	for i := range p {
		p[i] = i
	}
	// selection shuffle: position i takes element i+draw; zero draws = identity
	for i := 0; i < n-1; i++ {
		j := i + int(t.Uint(uint64(n-i)))
		// rotate so relative order of the rest is kept (better shrinking than swapping)
		v := p[j]
		copy(p[i+1:j+1], p[i:j])
		p[i] = v
	}
	return p
}

// Seed64 draws a full 64-bit value (used to seed in-process schedules).
func (t *Tape) Seed64() uint64 {
	v := t.next()
	t.Rec = append(t.Rec, v)
	return v
}

// Shrink minimises a failing choice sequence. fails must be deterministic; it
// is given a candidate and reports whether the same class of violation
// persists.  budget bounds the number of candidate evaluations.
func Shrink(vals []uint64, fails func([]uint64) bool, budget int) ([]uint64, int) {
	cur := append([]uint64(nil), vals...)
	evals := 0
	try := func(c []uint64) bool {
		if evals >= budget {
			return false
		}
		evals++
		return fails(c)
	}
	improved := true
	for improved && evals < budget {
		improved = false
		// 1. delete spans, large to small
		for size := len(cur) / 2; size >= 1; size /= 2 {
			for i := 0; i+size <= len(cur); {
				c := append(append([]uint64(nil), cur[:i]...), cur[i+size:]...)
				if try(c) {
					cur = c
					improved = true
				} else {
					i += size
				}
				if evals >= budget {
					break
				}
			}
		}
		// 2. zero spans
		for size := len(cur) / 2; size >= 1; size /= 2 {
			for i := 0; i+size <= len(cur); i += size {
				allZero := true
				for _, v := range cur[i : i+size] {
					if v != 0 {
						allZero = false
					}
				}
				if allZero {
					continue
				}
				c := append([]uint64(nil), cur...)
				for k := i; k < i+size; k++ {
					c[k] = 0
				}
				if try(c) {
					cur = c
					improved = true
				}
				if evals >= budget {
					break
				}
			}
		}
		// 3. lower individual values (binary search towards 0)
		for i := 0; i < len(cur) && evals < budget; i++ {
			if cur[i] == 0 {
				continue
			}
			lo, hi := uint64(0), cur[i]
			for lo < hi && evals < budget {
				mid := lo + (hi-lo)/2
				c := append([]uint64(nil), cur...)
				c[i] = mid
				if try(c) {
					hi = mid
					cur = c
					improved = true
				} else {
					lo = mid + 1
				}
			}
		}
		// trim trailing zeros (reads past the end are zero anyway)
		for len(cur) > 0 && cur[len(cur)-1] == 0 {
			cur = cur[:len(cur)-1]
		}
	}
	return cur, evals
}
