package sim

import (
	"crypto/sha256"
	"encoding/hex"
	"encoding/json"
	"fmt"
	"os"
	"path/filepath"
	"sort"
	"strings"
	"sync"
	"sync/atomic"
	"time"

	"verif/internal/tape"
)

// Violation is one failed oracle clause.
type Violation struct {
	// Class identifies the clause and the place it failed in a way that is stable
	// under minimisation (property-specific: pass, clause, differing path ...).
	Class  string            `json:"class"`
	Detail string            `json:"detail"`
	Sig    map[string]string `json:"sig,omitempty"`
}

// Outcome is what one simulated run (one scenario) produced.
type Outcome struct {
	Violations []Violation
	// NonTrivial: by the property's stated rule (see Property.Rule).
	NonTrivial bool
	// ContentHash identifies the scenario's content for distinct counting.
	ContentHash string
	// HistoryHash identifies the op-kind/order/process-boundary sequence.
	HistoryHash string
	// ScheduleHashes: distinct executed (site, permutation) sequences.
	ScheduleHashes []string
	// Faults: occurrences of each history/schedule fault kind that took effect.
	Faults map[string]int
	// Probes: "this rare condition was reached" counters.
	Probes map[string]int
	// Sample is a readable rendering of the scenario for the evidence file.
	Sample interface{}
	// Skipped scenarios (e.g. pristine run panics: outside the property) are counted, not judged.
	Skipped string
}

type RunCtx struct {
	Env   *Env
	Dir   string // fresh scratch directory of this run (removed afterwards)
	Stats *Stats
	Tier  string
	// ProcTimeout bounds one simulated process.
	ProcTimeout time.Duration
	GoMaxProcs  int
	// Trace collects, per simulated process, a digest of its event log and of every
	// operation result (with the run's scratch path removed): the determinism self-test compares these.
	Trace []string
}

func (c *RunCtx) Run(p *Proc) (*ProcResult, error) {
	res, err := c.Env.RunProc(p, c.Dir, c.ProcTimeout, c.Stats, c.GoMaxProcs)
	if err == nil && res != nil {
		h := sha256.New()
		for _, r := range res.Records {
			fmt.Fprintf(h, "%d|%s|%v|%s|", r.I, r.Op, r.OK, strings.ReplaceAll(r.Panic, c.Dir, "$W"))
			h.Write([]byte(strings.ReplaceAll(string(r.Result), c.Dir, "$W")))
		}
		c.Trace = append(c.Trace, fmt.Sprintf("events=%d perm=%d evhash=%s ended=%q results=%s", res.Events, res.NonCanon, res.EventHash, res.Ended, hex.EncodeToString(h.Sum(nil)[:8])))
	}
	return res, err
}

// Property is one claimed property: a workload/history/schedule generator and an oracle.
type Property interface {
	ID() string
	// Rule states how cases are generated and what makes one non-trivial/distinct.
	Rule() string
	// Budget returns the number of scenarios and the wall-clock cap of a tier.
	Budget(tier string) (scenarios int, maxWall time.Duration)
	// Generate materialises one scenario from the choice tape. The returned value
	// must marshal to JSON and contain everything Run needs (the replay file is
	// this value; no seed is needed to re-execute it).
	Generate(t *tape.Tape, tier string) interface{}
	// Run executes the scenario's simulated processes and evaluates the oracle.
	Run(ctx *RunCtx, data json.RawMessage) (*Outcome, error)
	// Components lists what ran as real code and what as a stub.
	Components() (real []string, stub []string)
	Assumptions() []string
}

// Refiner is an optional second minimisation stage on the materialised scenario (after tape
// shrinking): it receives a function that re-executes a candidate scenario and reports whether the
// same violation class persists, and returns a simpler scenario plus notes for the replay file.
type Refiner interface {
	Refine(env *Env, data json.RawMessage, class string, stillFails func(json.RawMessage) bool) (json.RawMessage, []string)
}

type Finding struct {
	Status    string            `json:"status"` // "open" or "fixed"
	Property  string            `json:"property"`
	Class     string            `json:"class,omitempty"`
	Signature map[string]string `json:"signature,omitempty"`
	What      string            `json:"what"`
	Commit    string            `json:"commit,omitempty"`
	Replay    string            `json:"replay,omitempty"`
}

func LoadFindings(verifDir string) ([]Finding, error) {
	b, err := os.ReadFile(filepath.Join(verifDir, "known_findings.json"))
	if os.IsNotExist(err) {
		return nil, nil
	}
	if err != nil {
		return nil, err
	}
	var f struct {
		Findings []Finding `json:"findings"`
	}
	if err := json.Unmarshal(b, &f); err != nil {
		return nil, fmt.Errorf("known_findings.json: %v", err)
	}
	return f.Findings, nil
}

// matches reports whether a (minimised) violation is the listed open finding.
func (f *Finding) matches(prop string, v *Violation) bool {
	if f.Status != "open" || f.Property != prop {
		return false
	}
	if f.Class != "" && f.Class != v.Class {
		return false
	}
	for k, want := range f.Signature {
		if v.Sig[k] != want {
			return false
		}
	}
	return true
}

type ReplayFile struct {
	Property   string          `json:"property"`
	Tier       string          `json:"tier"`
	VerifSeed  uint64          `json:"verif_seed"`
	Index      int             `json:"scenario_index"`
	Seed       uint64          `json:"scenario_seed"`
	Violations []Violation     `json:"violations"`
	ShrinkLog  []string        `json:"shrink_log,omitempty"`
	Tape       []uint64        `json:"tape,omitempty"`
	Scenario   json.RawMessage `json:"scenario"`
}

type CheckResult struct {
	Violations  []string // replay paths
	KnownHits   map[string]int
	Evaluations int
	Exit        int
}

func hashOf(v interface{}) string {
	b, _ := json.Marshal(v)
	s := sha256.Sum256(b)
	return hex.EncodeToString(s[:8])
}

// runOne executes one scenario in a fresh directory.
func runOne(env *Env, prop Property, data json.RawMessage, tier string, st *Stats, gomaxprocs int) (*Outcome, error) {
	dir, err := os.MkdirTemp(env.Scratch, "w-")
	if err == nil {
		os.Chmod(dir, 0755)
	}
	if err != nil {
		return nil, Harness("mkdir: %v", err)
	}
	defer os.RemoveAll(dir)
	ctx := &RunCtx{Env: env, Dir: dir, Stats: st, Tier: tier, ProcTimeout: 60 * time.Second, GoMaxProcs: gomaxprocs}
	return prop.Run(ctx, data)
}

func classesOf(o *Outcome) []string {
	var cs []string
	for _, v := range o.Violations {
		cs = append(cs, v.Class)
	}
	sort.Strings(cs)
	return cs
}

func hasClass(o *Outcome, class string) *Violation {
	for i := range o.Violations {
		if o.Violations[i].Class == class {
			return &o.Violations[i]
		}
	}
	return nil
}

// OutDir is where evidence/ and replays/ are written: /verif, unless VERIF_OUT_DIR redirects
// them (used for sensitivity experiments on deliberately broken trees, whose output must not
// replace the evidence of the real tree).
func OutDir(env *Env) string {
	if d := os.Getenv("VERIF_OUT_DIR"); d != "" {
		return d
	}
	return env.VerifDir
}

// Check explores one property at one tier and writes its evidence file.
func Check(env *Env, prop Property, tier string, verifSeed uint64, workers int) (*CheckResult, error) {
	start := time.Now()
	count, maxWall := prop.Budget(tier)
	if s := os.Getenv("VERIF_SCENARIOS"); s != "" {
		fmt.Sscanf(s, "%d", &count)
	}
	findings, err := LoadFindings(env.VerifDir)
	if err != nil {
		return nil, Harness("%v", err)
	}
	deadline := start.Add(maxWall)
	var st Stats
	var next int64 = -1
	var mu sync.Mutex
	var firstErr error
	evaluations, skipped := 0, 0
	distinct := map[string]bool{}
	histories := map[string]bool{}
	schedules := map[string]bool{}
	faults := map[string]int{}
	probes := map[string]int{}
	skipReasons := map[string]int{}
	var samples []interface{}
	type failure struct {
		index int
		seed  uint64
		tape  []uint64
		data  json.RawMessage
		out   *Outcome
	}
	var failures []failure
	seenClass := map[string]bool{}
	stop := int32(0)

	var wg sync.WaitGroup
	for w := 0; w < workers; w++ {
		wg.Add(1)
		go func() {
			defer wg.Done()
			for atomic.LoadInt32(&stop) == 0 {
				i := int(atomic.AddInt64(&next, 1))
				if i >= count || time.Now().After(deadline) {
					return
				}
				seed := tape.Derive(verifSeed, uint64(i))
				t := tape.New(seed)
				sc := prop.Generate(t, tier)
				data, err := json.Marshal(sc)
				if err != nil {
					mu.Lock()
					firstErr = Harness("marshal scenario: %v", err)
					mu.Unlock()
					atomic.StoreInt32(&stop, 1)
					return
				}
				out, err := runOne(env, prop, data, tier, &st, 1)
				mu.Lock()
				if err != nil {
					if firstErr == nil {
						firstErr = fmt.Errorf("scenario %d (seed %d): %w", i, seed, err)
					}
					mu.Unlock()
					atomic.StoreInt32(&stop, 1)
					return
				}
				evaluations++
				if out.Skipped != "" {
					skipped++
					skipReasons[out.Skipped]++
				}
				if out.NonTrivial && out.ContentHash != "" {
					distinct[out.ContentHash] = true
				}
				if out.HistoryHash != "" {
					histories[out.HistoryHash] = true
				}
				for _, h := range out.ScheduleHashes {
					schedules[h] = true
				}
				for k, v := range out.Faults {
					faults[k] += v
				}
				for k, v := range out.Probes {
					probes[k] += v
				}
				if len(samples) < 3 && out.Sample != nil && (out.NonTrivial || i < 2) {
					samples = append(samples, out.Sample)
				}
				if len(out.Violations) > 0 {
					fresh := false
					for _, v := range out.Violations {
						if !seenClass[v.Class] {
							seenClass[v.Class] = true
							fresh = true
						}
					}
					if fresh {
						failures = append(failures, failure{i, seed, append([]uint64(nil), t.Rec...), data, out})
					}
					if len(failures) >= 4 {
						atomic.StoreInt32(&stop, 1)
					}
				}
				mu.Unlock()
			}
		}()
	}
	wg.Wait()
	if firstErr != nil {
		return nil, firstErr
	}
	exploreWall := time.Since(start)

	res := &CheckResult{KnownHits: map[string]int{}, Evaluations: evaluations}
	// minimise, confirm and classify every failure
	sort.Slice(failures, func(i, j int) bool { return failures[i].index < failures[j].index })
	reported := map[string]bool{}
	for _, f := range failures {
		for _, v0 := range f.out.Violations {
			if reported[v0.Class] {
				continue
			}
			reported[v0.Class] = true
			class := v0.Class
			var shrinkLog []string
			bestTape, bestData, bestOut := f.tape, f.data, f.out
			shrinkBudget := 40
			if tier == "thorough" {
				shrinkBudget = 120
			}
			if len(res.Violations) >= 3 {
				shrinkBudget = 0 // enough minimised reports; the rest are reported as found
			}
			noMinimise := os.Getenv("VERIF_MINIMISE") == "0" // regression runs over stored changes only ask caught / missed
			if noMinimise {
				shrinkBudget = 0
			}
			shrinkDeadline := time.Now().Add(60 * time.Second)
			min, evals := tape.Shrink(f.tape, func(c []uint64) bool {
				if time.Now().After(shrinkDeadline) {
					return false
				}
				tt := tape.Replay(c)
				sc := prop.Generate(tt, tier)
				data, err := json.Marshal(sc)
				if err != nil {
					return false
				}
				out, err := runOne(env, prop, data, tier, &st, 1)
				if err != nil || out == nil {
					return false
				}
				if hasClass(out, class) != nil {
					bestTape, bestData, bestOut = append([]uint64(nil), tt.Rec...), data, out
					return true
				}
				return false
			}, shrinkBudget)
			_ = min
			shrinkLog = append(shrinkLog, fmt.Sprintf("tape %d -> %d draws in %d evaluations; scenario %d -> %d bytes",
				len(f.tape), len(bestTape), evals, len(f.data), len(bestData)))
			if rf, ok := prop.(Refiner); ok && len(res.Violations) < 3 {
				refineDeadline := time.Now().Add(5 * time.Minute)
				if noMinimise {
					refineDeadline = time.Now()
				}
				nd, notes := rf.Refine(env, bestData, class, func(c json.RawMessage) bool {
					if time.Now().After(refineDeadline) {
						return false
					}
					out, err := runOne(env, prop, c, tier, &st, 1)
					if err != nil || out == nil {
						return false
					}
					if hasClass(out, class) != nil {
						bestOut = out
						return true
					}
					return false
				})
				if nd != nil {
					bestData = nd
				}
				shrinkLog = append(shrinkLog, notes...)
			}
			// confirm by fresh replays of the materialised scenario (no PRNG involved)
			reproduced := 0
			for k := 0; k < 5 && (k < 2 || reproduced == 0); k++ {
				out, err := runOne(env, prop, bestData, tier, &st, 1+3*(k%2))
				if err != nil {
					return nil, err
				}
				if hasClass(out, class) != nil {
					reproduced++
				}
			}
			if reproduced == 0 {
				// The simulator owns every source of nondeterminism of the unchanged tree (the
				// determinism self-test shows identical traces), so an observation that does not
				// replay means the tree under test has acquired nondeterminism of its own (for
				// example goroutines). The wrong output WAS produced by that tree: it is reported,
				// flagged as unstable, with the scenario that showed it.
				shrinkLog = append(shrinkLog, "UNSTABLE: observed during exploration but not reproduced in 5 replays of the same scenario and schedule: the tree under test is not deterministic under a fixed schedule (unowned concurrency?)")
			}
			v := hasClass(bestOut, class)
			known := false
			for fi := range findings {
				if findings[fi].matches(prop.ID(), v) {
					res.KnownHits[findings[fi].What]++
					known = true
				}
			}
			if known {
				continue
			}
			rf := ReplayFile{Property: prop.ID(), Tier: tier, VerifSeed: verifSeed, Index: f.index, Seed: f.seed,
				Violations: bestOut.Violations, ShrinkLog: shrinkLog, Tape: bestTape, Scenario: bestData}
			os.MkdirAll(filepath.Join(OutDir(env), "replays"), 0755)
			name := fmt.Sprintf("%s-%d-%d-%s.json", prop.ID(), verifSeed, f.index, hashOf(class)[:6])
			path := filepath.Join(OutDir(env), "replays", name)
			b, _ := json.MarshalIndent(rf, "", " ")
			if err := os.WriteFile(path, b, 0644); err != nil {
				return nil, Harness("write replay: %v", err)
			}
			fmt.Printf("violation class: %s\n  %s\n", v.Class, strings.ReplaceAll(v.Detail, "\n", "\n  "))
			fmt.Printf("VIOLATION property=%s replay=%s\n", prop.ID(), path)
			res.Violations = append(res.Violations, path)
		}
	}
	for _, f := range findings {
		if f.Status == "open" && f.Property == prop.ID() {
			fmt.Printf("KNOWN-FINDING: property=%s %s (hit %d times in this run)\n", prop.ID(), f.What, res.KnownHits[f.What])
		}
	}

	// evidence
	real, stub := prop.Components()
	wall := time.Since(start).Seconds()
	perHour := 0.0
	if exploreWall.Seconds() > 0 {
		perHour = float64(evaluations) / exploreWall.Seconds() * 3600
	}
	sortedKeys := func(m map[string]int) map[string]int { return m }
	ev := map[string]interface{}{
		"property_id": prop.ID(),
		"tier":        tier,
		"seed":        int64(verifSeed),
		"level":       "exploration",
		"wall_s":      wall,
		"violations":  len(res.Violations),
		"assumptions": prop.Assumptions(),
		"coverage": map[string]interface{}{
			"evaluations":                        evaluations,
			"distinct_nontrivial":                len(distinct),
			"rule":                               prop.Rule(),
			"samples":                            samples,
			"skipped":                            skipped,
			"skip_reasons":                       skipReasons,
			"scenario_budget":                    count,
			"budget_exhausted_by":                map[bool]string{true: "scenario count", false: "wall clock or early stop"}[evaluations >= count],
			"workers":                            workers,
			"runs_per_hour":                      perHour,
			"seeds":                              fmt.Sprintf("scenario i uses splitmix-derived seed Derive(VERIF_SEED=%d, i), i in [0,%d)", verifSeed, count),
			"processes_launched":                 st.Procs,
			"ops_executed":                       st.Ops,
			"map_iteration_events":               st.Events,
			"map_iteration_events_non_canonical": st.NonCanon,
			"process_timeouts":                   st.Timeouts,
			"process_crashes":                    st.Crashes,
			"distinct_histories":                 len(histories),
			"distinct_schedules":                 len(schedules),
			"fault_kinds":                        sortedKeys(faults),
			"probes":                             sortedKeys(probes),
			"simulated_time":                     "n/a - coca reads no timer or deadline on any claimed path; progress is counted in operations and map-iteration events",
			"components":                         map[string]interface{}{"real": real, "stub": stub},
			"seam_sites":                         env.Sites,
			"events_per_site":                    st.PerSite,
			"sites_never_iterated":               neverIterated(env.Sites, st.PerSite),
			"known_findings_hit":                 res.KnownHits,
			"build_wall_s":                       env.BuildWall.Seconds(),
			"exhaustive":                         false,
		},
	}
	os.MkdirAll(filepath.Join(OutDir(env), "evidence"), 0755)
	b, _ := json.MarshalIndent(ev, "", " ")
	if err := os.WriteFile(filepath.Join(OutDir(env), "evidence", prop.ID()+".json"), b, 0644); err != nil {
		return nil, Harness("write evidence: %v", err)
	}
	fmt.Printf("%s %s: %d scenarios (%d non-trivial distinct, %d skipped), %d processes, %d ops, %d map-iteration events (%d permuted), %.0fs\n",
		prop.ID(), tier, evaluations, len(distinct), skipped, st.Procs, st.Ops, st.Events, st.NonCanon, wall)
	if len(distinct) < 2 {
		return nil, Harness("only %d distinct non-trivial scenarios: the run explored nothing", len(distinct))
	}
	if len(res.Violations) > 0 {
		res.Exit = 1
	}
	return res, nil
}

func neverIterated(sites []string, per map[string]int64) []string {
	out := []string{}
	for _, s := range sites {
		if per[strings.TrimPrefix(s, "dep:")] == 0 {
			out = append(out, s)
		}
	}
	return out
}

// Determinism runs scenarios of a property several times each, at several GOMAXPROCS settings and
// concurrently, and compares the traces (event-log hashes and result digests of every simulated process).
func Determinism(env *Env, prop Property, tier string, verifSeed uint64, scenarios, repeats, workers int) (int, error) {
	type job struct {
		i    int
		data json.RawMessage
	}
	var mu sync.Mutex
	traces := map[int][]string{}
	var firstErr error
	jobs := make(chan [2]int, scenarios*repeats)
	datas := make([]json.RawMessage, scenarios)
	for i := 0; i < scenarios; i++ {
		t := tape.New(tape.Derive(verifSeed, uint64(i)))
		b, err := json.Marshal(prop.Generate(t, tier))
		if err != nil {
			return 2, Harness("marshal: %v", err)
		}
		datas[i] = b
		// generation itself must be a pure function of the seed
		t2 := tape.New(tape.Derive(verifSeed, uint64(i)))
		b2, _ := json.Marshal(prop.Generate(t2, tier))
		if string(b) != string(b2) {
			return 1, fmt.Errorf("scenario %d: generation is not a function of the seed", i)
		}
		for r := 0; r < repeats; r++ {
			jobs <- [2]int{i, r}
		}
	}
	close(jobs)
	var wg sync.WaitGroup
	for w := 0; w < workers; w++ {
		wg.Add(1)
		go func() {
			defer wg.Done()
			for j := range jobs {
				i, r := j[0], j[1]
				gmp := []int{1, 4, 16}[r%3]
				dir, err := os.MkdirTemp(env.Scratch, "d-")
				if err != nil {
					mu.Lock()
					firstErr = err
					mu.Unlock()
					return
				}
				ctx := &RunCtx{Env: env, Dir: dir, Stats: nil, Tier: tier, ProcTimeout: 60 * time.Second, GoMaxProcs: gmp}
				out, err := prop.Run(ctx, datas[i])
				os.RemoveAll(dir)
				mu.Lock()
				if err != nil && firstErr == nil {
					firstErr = err
				}
				if err == nil {
					tr := strings.Join(ctx.Trace, "\n") + "\nviolations=" + strings.Join(classesOf(out), ",")
					traces[i] = append(traces[i], tr)
				}
				mu.Unlock()
			}
		}()
	}
	wg.Wait()
	if firstErr != nil {
		return 2, firstErr
	}
	bad := 0
	for i := 0; i < scenarios; i++ {
		for _, tr := range traces[i][1:] {
			if tr != traces[i][0] {
				bad++
				fmt.Printf("NONDETERMINISM property=%s scenario=%d\n--- run A\n%s\n--- run B\n%s\n", prop.ID(), i, traces[i][0], tr)
				break
			}
		}
	}
	fmt.Printf("determinism %s: %d scenarios x %d executions (GOMAXPROCS 1/4/16, %d concurrent workers): %d divergent\n", prop.ID(), scenarios, repeats, workers, bad)
	if bad > 0 {
		return 1, nil
	}
	return 0, nil
}

// Replay re-executes a replay file with no PRNG and reports its violations.
func Replay(env *Env, prop Property, rf *ReplayFile, path string) (int, error) {
	out, err := runOne(env, prop, rf.Scenario, rf.Tier, nil, 1)
	if err != nil {
		return 2, err
	}
	if len(out.Violations) == 0 {
		fmt.Printf("replay %s: no violation\n", path)
		return 0, nil
	}
	for _, v := range out.Violations {
		fmt.Printf("violation class: %s\n  %s\n", v.Class, strings.ReplaceAll(v.Detail, "\n", "\n  "))
	}
	fmt.Printf("VIOLATION property=%s replay=%s\n", prop.ID(), path)
	return 1, nil
}
