package sim

import (
	"bufio"
	"bytes"
	"context"
	"encoding/json"
	"fmt"
	"os"
	"os/exec"
	"path/filepath"
	"strings"
	"sync"
	"sync/atomic"
	"syscall"
	"time"
)

// Schedule mirrors simrt.Schedule (the driver never links coca).
type Schedule struct {
	Codes    []int  `json:"codes"`
	Tail     string `json:"tail"`
	Seed     uint64 `json:"seed"`
	Pct      int    `json:"pct,omitempty"`
	Site     string `json:"site,omitempty"`
	SiteCode int    `json:"site_code,omitempty"`
}

// Canonical is the reference schedule: every map iteration in sorted key order.
func Canonical() Schedule { return Schedule{Tail: "sorted"} }

func (s Schedule) IsCanonical() bool {
	if s.Tail != "sorted" && s.Tail != "" {
		return false
	}
	for _, c := range s.Codes {
		if c != 0 {
			return false
		}
	}
	return true
}

type Op struct {
	Op   string      `json:"op"`
	Args interface{} `json:"args"`
}

// Proc is one simulated process: a schedule and a script of operations.
type Proc struct {
	Name      string   `json:"name,omitempty"`
	Schedule  Schedule `json:"schedule"`
	Cwd       string   `json:"cwd"`
	Ops       []Op     `json:"ops"`
	LogEvents bool     `json:"log_events,omitempty"`
	// TmpOtherFS: the process's temporary directory ($TMPDIR) lies on another file system than its
	// working directory (an environment fault: renames across the two fail with EXDEV)
	TmpOtherFS bool `json:"tmp_other_fs,omitempty"`
	// TZ: the process's time zone (environment fault: results must not depend on it)
	TZ string `json:"tz,omitempty"`
	// MaxOpenFiles > 0: the process runs under that descriptor limit (`ulimit -n`, a resource fault:
	// descriptors that are not released promptly run out)
	MaxOpenFiles int `json:"max_open_files,omitempty"`
	// Parallel: the process runs with GOMAXPROCS=8 instead of 1. The unchanged tree starts no goroutine
	// on any claimed path, so this changes nothing there; a tree that has acquired concurrency of its
	// own meets real parallelism (see the unstable-violation policy)
	Parallel bool `json:"parallel,omitempty"`
	// Unprivileged: the process runs as an ordinary user (uid/gid 65534) that owns its working
	// directory, instead of as root, which is exempt from every permission bit
	Unprivileged bool `json:"unprivileged,omitempty"`
	// Env: extra environment of the process (LANG, COLUMNS, HOME= ...: deployment differences; coca
	// reads no environment variable on any claimed path). Umask: e.g. "077".
	Env   []string `json:"env,omitempty"`
	Umask string   `json:"umask,omitempty"`
}

type Record struct {
	I      int             `json:"i"`
	Op     string          `json:"op"`
	OK     bool            `json:"ok"`
	Panic  string          `json:"panic,omitempty"`
	Result json.RawMessage `json:"result,omitempty"`
	CPUms  int64           `json:"cpu_ms"`
	Events int             `json:"events"`
}

type Event struct {
	K    int    `json:"k"`
	Site string `json:"site"`
	N    int    `json:"n"`
	Code int    `json:"code"`
}

type ProcResult struct {
	Records   []Record
	Events    int
	NonCanon  int
	EventHash string
	PerSite   map[string]int
	Log       []Event
	// Ended describes how the process ended when it did not complete its script:
	// "" (completed), "timeout", "exit:<code>", "crash" (fatal error such as stack overflow)
	Ended  string
	Stderr string
	Wall   time.Duration
}

// Completed reports whether op i produced a record.
func (r *ProcResult) Completed(i int) bool { return i < len(r.Records) }

// Stats are cumulative counters of the simulator (atomic: workers share them).
type Stats struct {
	Procs        int64
	Ops          int64
	Events       int64
	NonCanon     int64
	Timeouts     int64
	Crashes      int64
	ProcWallN    int64 // nanoseconds
	TmpOtherFS   int64 // processes that really ran with $TMPDIR on another file system
	Unprivileged int64 // processes that really ran as an ordinary user

	mu      sync.Mutex
	PerSite map[string]int64 // iteration events per rewritten site
}

func (st *Stats) addSites(per map[string]int) {
	st.mu.Lock()
	defer st.mu.Unlock()
	if st.PerSite == nil {
		st.PerSite = map[string]int64{}
	}
	for k, v := range per {
		st.PerSite[k] += int64(v)
	}
}

var procSeq int64

// RunProc executes one simulated process. workDir is a scratch directory for the
// script and result files. timeout bounds the whole script (wall clock; a
// timeout is reported, never silently retried).
func (e *Env) RunProc(p *Proc, workDir string, timeout time.Duration, st *Stats, gomaxprocs int) (*ProcResult, error) {
	n := atomic.AddInt64(&procSeq, 1)
	scriptPath := filepath.Join(workDir, fmt.Sprintf("script-%d.json", n))
	resultPath := filepath.Join(workDir, fmt.Sprintf("result-%d.jsonl", n))
	defer os.Remove(scriptPath)
	defer os.Remove(resultPath)
	b, err := json.Marshal(p)
	if err != nil {
		return nil, Harness("marshal script: %v", err)
	}
	if err := os.WriteFile(scriptPath, b, 0644); err != nil {
		return nil, Harness("write script: %v", err)
	}
	ctx, cancel := context.WithTimeout(context.Background(), timeout)
	defer cancel()
	cmd := exec.CommandContext(ctx, e.SimprocBin, scriptPath, resultPath)
	if p.MaxOpenFiles > 0 || p.Umask != "" {
		pre := ""
		if p.MaxOpenFiles > 0 {
			pre += fmt.Sprintf("ulimit -n %d && ", p.MaxOpenFiles)
		}
		if p.Umask != "" {
			pre += "umask " + p.Umask + " && "
		}
		cmd = exec.CommandContext(ctx, "/bin/sh", "-c", pre+"exec \"$0\" \"$@\"", e.SimprocBin, scriptPath, resultPath)
	}
	if gomaxprocs <= 0 {
		gomaxprocs = 1
	}
	if p.Parallel && gomaxprocs < 8 {
		gomaxprocs = 8
	}
	cmd.Env = append(os.Environ(), fmt.Sprintf("GOMAXPROCS=%d", gomaxprocs), "GOTRACEBACK=single")
	if p.TZ != "" {
		cmd.Env = append(cmd.Env, "TZ="+p.TZ)
	}
	cmd.Env = append(cmd.Env, p.Env...)
	unpriv := p.Unprivileged && os.Geteuid() == 0
	if unpriv {
		cmd.SysProcAttr = &syscall.SysProcAttr{Credential: &syscall.Credential{Uid: 65534, Gid: 65534}}
		cmd.Env = append(cmd.Env, "HOME="+workDir)
		chownTree(workDir, 65534)
		defer chownTree(workDir, 0) // later processes of the scenario run as root again (git refuses a repository of another owner)
		if p.Cwd != "" && !strings.HasPrefix(p.Cwd, workDir) {
			chownTree(p.Cwd, 65534)
			defer chownTree(p.Cwd, 0)
		}
		if st != nil {
			atomic.AddInt64(&st.Unprivileged, 1)
		}
	}
	if p.TmpOtherFS {
		if d := otherFSTemp(workDir); d != "" {
			defer os.RemoveAll(d)
			if unpriv {
				os.Chown(d, 65534, 65534)
			}
			cmd.Env = append(cmd.Env, "TMPDIR="+d)
			if st != nil {
				atomic.AddInt64(&st.TmpOtherFS, 1)
			}
		}
	}
	var stderr bytes.Buffer
	cmd.Stderr = &limitedWriter{w: &stderr, n: 16 << 10}
	cmd.Stdout = nil
	start := time.Now()
	runErr := cmd.Run()
	res := &ProcResult{Wall: time.Since(start), Stderr: stderr.String()}
	if st != nil {
		atomic.AddInt64(&st.Procs, 1)
		atomic.AddInt64(&st.ProcWallN, int64(res.Wall))
	}
	sawTrailer := false
	oversized := false
	if f, err := os.Open(resultPath); err == nil {
		sc := bufio.NewScanner(f)
		sc.Buffer(make([]byte, 1<<20), 96<<20)
		for sc.Scan() {
			line := sc.Bytes()
			if len(line) == 0 {
				continue
			}
			var probe struct {
				Trailer bool `json:"trailer"`
			}
			if err := json.Unmarshal(line, &probe); err != nil {
				// a torn last line can only come from a process killed mid-write
				if runErr == nil {
					f.Close()
					return nil, Harness("malformed simproc output: %v", err)
				}
				break
			}
			if probe.Trailer {
				var tr struct {
					Events    int            `json:"events"`
					NonCanon  int            `json:"non_canonical"`
					EventHash string         `json:"event_hash"`
					PerSite   map[string]int `json:"per_site"`
					Log       []Event        `json:"log"`
				}
				if err := json.Unmarshal(line, &tr); err != nil {
					f.Close()
					return nil, Harness("malformed trailer: %v", err)
				}
				res.Events, res.NonCanon, res.EventHash, res.PerSite, res.Log = tr.Events, tr.NonCanon, tr.EventHash, tr.PerSite, tr.Log
				sawTrailer = true
				continue
			}
			var rec Record
			if err := json.Unmarshal(line, &rec); err != nil {
				f.Close()
				return nil, Harness("malformed record: %v", err)
			}
			res.Records = append(res.Records, rec)
		}
		if sc.Err() == bufio.ErrTooLong {
			// one operation produced a result of more than 96 MiB for a workload of a few kilobytes:
			// the process is treated as having ended inside that operation
			oversized = true
		}
		f.Close()
	}
	if st != nil {
		atomic.AddInt64(&st.Ops, int64(len(res.Records)))
		atomic.AddInt64(&st.Events, int64(res.Events))
		atomic.AddInt64(&st.NonCanon, int64(res.NonCanon))
		st.addSites(res.PerSite)
	}
	switch {
	case ctx.Err() == context.DeadlineExceeded:
		res.Ended = "timeout"
		if st != nil {
			atomic.AddInt64(&st.Timeouts, 1)
		}
	case runErr != nil:
		if ee, ok := runErr.(*exec.ExitError); ok {
			code := ee.ExitCode()
			if code == 3 {
				return nil, Harness("simproc harness failure: %s", res.Stderr)
			}
			if code == 2 && bytes.Contains(stderr.Bytes(), []byte("fatal error")) || bytes.Contains(stderr.Bytes(), []byte("goroutine stack exceeds")) {
				res.Ended = "crash"
			} else {
				res.Ended = fmt.Sprintf("exit:%d", code)
			}
			if st != nil {
				atomic.AddInt64(&st.Crashes, 1)
			}
		} else {
			return nil, Harness("cannot run simproc: %v", runErr)
		}
	case oversized:
		res.Ended = "oversized-output"
	default:
		if !sawTrailer || len(res.Records) != len(p.Ops) {
			return nil, Harness("simproc exited 0 with %d of %d records (trailer=%v)", len(res.Records), len(p.Ops), sawTrailer)
		}
	}
	return res, nil
}

// otherFSTemp creates a temporary directory on a file system other than workDir's (tmpfs under
// /dev/shm in this sandbox); "" if none is available - the fault is then not injected.
// chownTree hands a directory tree to uid (and gid) uid; symbolic links themselves, not their targets.
func chownTree(root string, uid int) {
	filepath.Walk(root, func(p string, fi os.FileInfo, err error) error {
		if err == nil {
			os.Lchown(p, uid, uid)
		}
		return nil
	})
}

func otherFSTemp(workDir string) string {
	var a, b syscall.Stat_t
	if syscall.Stat(workDir, &a) != nil {
		return ""
	}
	for _, base := range []string{"/dev/shm", "/run/shm"} {
		if syscall.Stat(base, &b) == nil && a.Dev != b.Dev {
			if d, err := os.MkdirTemp(base, "vsim-tmp-"); err == nil {
				return d
			}
		}
	}
	return ""
}

type limitedWriter struct {
	w *bytes.Buffer
	n int
}

func (l *limitedWriter) Write(p []byte) (int, error) {
	if l.w.Len() < l.n {
		k := l.n - l.w.Len()
		if k > len(p) {
			k = len(p)
		}
		l.w.Write(p[:k])
	}
	return len(p), nil
}
