// Package sim is the simulator core: it builds the instrumented "coca process"
// binary from /repo's current working tree, runs simulated processes, and
// owns the scratch file system they live in.
package sim

import (
	"bytes"
	"fmt"
	"io"
	"io/fs"
	"os"
	"os/exec"
	"path/filepath"
	"strings"
	"time"
)

// HarnessError is any failure of the machinery itself (exit code 2, never a VIOLATION).
type HarnessError struct{ Msg string }

func (e *HarnessError) Error() string { return e.Msg }

func Harness(f string, a ...interface{}) error { return &HarnessError{fmt.Sprintf(f, a...)} }

type Env struct {
	VerifDir   string // /verif
	RepoDir    string // /repo
	Scratch    string // removed by Close
	SimprocBin string
	CocaDir    string   // instrumented copy
	Sites      []string // rewritten map-range sites ("<rel file>:<line>")
	Plain      bool     // built without the seam (triage only)
	BuildWall  time.Duration
	keep       bool
}

func goEnv() []string {
	env := os.Environ()
	env = append(env, "GOFLAGS=-mod=mod", "GOPROXY=off", "GOSUMDB=off", "GOTOOLCHAIN=local", "CGO_ENABLED=0")
	return env
}

func run(dir string, stdout io.Writer, name string, args ...string) error {
	cmd := exec.Command(name, args...)
	cmd.Dir = dir
	cmd.Env = goEnv()
	var errb bytes.Buffer
	cmd.Stderr = &errb
	if stdout != nil {
		cmd.Stdout = stdout
	} else {
		cmd.Stdout = &errb
	}
	if err := cmd.Run(); err != nil {
		return fmt.Errorf("%s %s (in %s): %v\n%s", name, strings.Join(args, " "), dir, err, errb.String())
	}
	return nil
}

func copyTree(src, dst string, skip func(rel string, d fs.DirEntry) bool) error {
	return filepath.WalkDir(src, func(p string, d fs.DirEntry, err error) error {
		if err != nil {
			return err
		}
		rel, _ := filepath.Rel(src, p)
		if rel != "." && skip != nil && skip(rel, d) {
			if d.IsDir() {
				return filepath.SkipDir
			}
			return nil
		}
		target := filepath.Join(dst, rel)
		if d.IsDir() {
			return os.MkdirAll(target, 0755)
		}
		info, err := d.Info()
		if err != nil {
			return err
		}
		if info.Mode()&os.ModeSymlink != 0 {
			l, err := os.Readlink(p)
			if err != nil {
				return err
			}
			return os.Symlink(l, target)
		}
		if !info.Mode().IsRegular() {
			return nil
		}
		b, err := os.ReadFile(p)
		if err != nil {
			return err
		}
		return os.WriteFile(target, b, info.Mode().Perm()|0600)
	})
}

// ScratchBase is where scratch directories are created: never under /repo or /verif,
// and free of the path substrings coca's file filters react to.
func ScratchBase() string {
	if s := os.Getenv("VERIF_SCRATCH"); s != "" {
		return s
	}
	return "/var/tmp"
}

// Build copies the repository's working tree, installs the seams and builds simproc.
func Build(verifDir, repoDir, tag string, plain bool) (*Env, error) {
	start := time.Now()
	base := ScratchBase()
	if err := os.MkdirAll(base, 0755); err != nil {
		return nil, Harness("scratch base: %v", err)
	}
	scratch, err := os.MkdirTemp(base, "vsim-"+tag+"-")
	if err == nil {
		os.Chmod(scratch, 0755) // processes running as an ordinary user must be able to reach their files
	}
	if err != nil {
		return nil, Harness("mktemp: %v", err)
	}
	for _, bad := range []string{"testData", "Test.java", "Tests.java", "src/test/java/"} {
		if strings.Contains(scratch, bad) {
			return nil, Harness("scratch path %q contains %q which coca's file filters react to", scratch, bad)
		}
	}
	e := &Env{VerifDir: verifDir, RepoDir: repoDir, Scratch: scratch, Plain: plain}
	e.keep = os.Getenv("VERIF_KEEP") != ""
	fail := func(f string, a ...interface{}) (*Env, error) {
		e.Close()
		return nil, Harness(f, a...)
	}
	e.CocaDir = filepath.Join(scratch, "coca")
	if err := copyTree(repoDir, e.CocaDir, func(rel string, d fs.DirEntry) bool {
		return rel == ".git" || rel == "coca_reporter" || rel == "docs" || rel == "showcases"
	}); err != nil {
		return fail("copy %s: %v", repoDir, err)
	}
	// the simrt module
	vs := filepath.Join(scratch, "verifsim")
	if err := os.MkdirAll(filepath.Join(vs, "simrt"), 0755); err != nil {
		return fail("%v", err)
	}
	if err := os.WriteFile(filepath.Join(vs, "go.mod"), []byte("module verifsim.local\n\ngo 1.18\n"), 0644); err != nil {
		return fail("%v", err)
	}
	src, err := os.ReadFile(filepath.Join(verifDir, "simrt", "simrt.go"))
	if err != nil {
		return fail("%v", err)
	}
	if err := os.WriteFile(filepath.Join(vs, "simrt", "simrt.go"), src, 0644); err != nil {
		return fail("%v", err)
	}
	appendMod := func(path, extra string) error {
		b, err := os.ReadFile(path)
		if err != nil {
			return err
		}
		return os.WriteFile(path, append(b, []byte(extra)...), 0644)
	}
	rel := "\nrequire verifsim.local v0.0.0\n\nreplace verifsim.local => ../verifsim\n"
	if err := appendMod(filepath.Join(e.CocaDir, "go.mod"), rel); err != nil {
		return fail("go.mod: %v", err)
	}
	simprocMod := "module simproc\n\ngo 1.18\n\nrequire github.com/modernizing/coca v0.0.0\n\nrequire verifsim.local v0.0.0\n\n" +
		"replace github.com/modernizing/coca => ../coca\n\nreplace verifsim.local => ../verifsim\n"

	if !plain {
		// the one dependency whose map iteration reaches coca's output
		var out bytes.Buffer
		if err := run(e.CocaDir, &out, "go", "list", "-m", "-f", "{{.Dir}}", "github.com/huleTW/bad-smell-analysis"); err != nil {
			return fail("locate graphcall: %v", err)
		}
		bsaSrc := strings.TrimSpace(out.String())
		bsa := filepath.Join(scratch, "dep", "bsa")
		if err := copyTree(bsaSrc, bsa, func(rel string, d fs.DirEntry) bool { return strings.HasSuffix(rel, "_test.go") }); err != nil {
			return fail("copy graphcall: %v", err)
		}
		if err := os.WriteFile(filepath.Join(bsa, "go.mod"),
			[]byte("module github.com/huleTW/bad-smell-analysis\n\ngo 1.18\n\nrequire verifsim.local v0.0.0\n\nreplace verifsim.local => ../../verifsim\n"), 0644); err != nil {
			return fail("%v", err)
		}
		simprocMod += "\nreplace github.com/huleTW/bad-smell-analysis => ../dep/bsa\n"
		if err := appendMod(filepath.Join(e.CocaDir, "go.mod"), "\nreplace github.com/huleTW/bad-smell-analysis => ../dep/bsa\n"); err != nil {
			return fail("go.mod: %v", err)
		}
		maprw := filepath.Join(verifDir, "bin", "maprw")
		var sites bytes.Buffer
		if err := run(scratch, &sites, maprw, e.CocaDir, "/languages/"); err != nil {
			return fail("map-iteration seam (coca): %v", err)
		}
		var sites2 bytes.Buffer
		if err := run(scratch, &sites2, maprw, bsa); err != nil {
			return fail("map-iteration seam (graphcall): %v", err)
		}
		for _, l := range strings.Split(strings.TrimSpace(sites.String()), "\n") {
			if l != "" {
				e.Sites = append(e.Sites, l)
			}
		}
		for _, l := range strings.Split(strings.TrimSpace(sites2.String()), "\n") {
			if l != "" {
				e.Sites = append(e.Sites, "dep:"+l)
			}
		}
	}
	// simproc
	sp := filepath.Join(scratch, "simproc")
	if err := os.MkdirAll(sp, 0755); err != nil {
		return fail("%v", err)
	}
	for _, f := range []string{"main.go", "ops.go"} {
		b, err := os.ReadFile(filepath.Join(verifDir, "simproc", f))
		if err != nil {
			return fail("%v", err)
		}
		if err := os.WriteFile(filepath.Join(sp, f), b, 0644); err != nil {
			return fail("%v", err)
		}
	}
	if err := os.WriteFile(filepath.Join(sp, "go.mod"), []byte(simprocMod), 0644); err != nil {
		return fail("%v", err)
	}
	sum, err := os.ReadFile(filepath.Join(repoDir, "go.sum"))
	if err != nil {
		return fail("%v", err)
	}
	if err := os.WriteFile(filepath.Join(sp, "go.sum"), sum, 0644); err != nil {
		return fail("%v", err)
	}
	e.SimprocBin = filepath.Join(scratch, "simproc.bin")
	if err := run(sp, nil, "go", "build", "-trimpath", "-o", e.SimprocBin, "."); err != nil {
		return fail("build of the instrumented tree failed (the tree under test must compile): %v", err)
	}
	e.BuildWall = time.Since(start)
	return e, nil
}

func (e *Env) Close() {
	if e == nil || e.Scratch == "" {
		return
	}
	if e.keep {
		fmt.Fprintf(os.Stderr, "vsim: keeping scratch %s\n", e.Scratch)
		return
	}
	// module-cache copies may be read-only
	filepath.WalkDir(e.Scratch, func(p string, d fs.DirEntry, err error) error {
		if err == nil && d.IsDir() {
			os.Chmod(p, 0755)
		}
		return nil
	})
	os.RemoveAll(e.Scratch)
}
