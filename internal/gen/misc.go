package gen

import (
	"fmt"
	"strings"

	"verif/internal/tape"
)

// GenTestClasses draws JUnit-style test classes (carriers for the test-smell report).
func GenTestClasses(t *tape.Tape, pkgs []string) []*JFile {
	n := t.Int(1, 3)
	var out []*JFile
	for i := 0; i < n; i++ {
		pkg := pkgs[t.Pick(len(pkgs))]
		name := fmt.Sprintf("%sTest", []string{"Alpha", "Beta", "Store", "Svc"}[t.Pick(4)])
		if i > 0 {
			name = fmt.Sprintf("%s%dTests", []string{"Alpha", "Beta", "Store", "Svc"}[t.Pick(4)], i)
		}
		var b []string
		b = append(b, "package "+pkg+";", "", "import org.junit.Test;", "import org.junit.Ignore;", "import static org.junit.Assert.*;", "", "public class "+name+" {")
		nm := t.Int(1, 5)
		for j := 0; j < nm; j++ {
			if t.Bool(1, 5) {
				b = append(b, "    @Ignore")
			}
			b = append(b, "    @Test")
			b = append(b, fmt.Sprintf("    public void test%d() {", j))
			ns := t.Int(0, 10)
			asserts := []string{"assertEquals(%d, value())", "assertTrue(value() > %d)", "assertNotNull(helper.find(%d))", "assertThat(value()).isEqualTo(%d)"}
			main := asserts[t.Pick(len(asserts))]
			for k := 0; k < ns; k++ {
				switch t.Pick(9) {
				case 0:
					b = append(b, "        System.out.println(\"x\");")
				case 1:
					b = append(b, "        Thread.sleep(10);")
				case 2:
					b = append(b, "        assertEquals(true, true);")
				case 3:
					b = append(b, "        helper.run();")
				case 4:
					b = append(b, "        "+fmt.Sprintf(asserts[t.Pick(len(asserts))], k)+";")
				default:
					b = append(b, "        "+fmt.Sprintf(main, k)+";")
				}
			}
			b = append(b, "    }", "")
		}
		b = append(b, "    private int value() {", "        return 1;", "    }", "}")
		f := &JFile{ID: fmt.Sprintf("t%d", i), Pkg: pkg, Name: name, Kind: "class"}
		f.Path = strings.ReplaceAll(pkg, ".", "/") + "/" + name + ".java"
		f.Text = strings.Join(b, "\n") + "\n"
		out = append(out, f)
	}
	return out
}

// GenGitLog draws a synthetic `git log --numstat --summary` text in the shape the parser's unit tests use.
func GenGitLog(t *tape.Tape) string {
	authors := []string{"Ann Lee", "Bob", "Cy Young", "Dee"}
	files := []string{"a/A.java", "a/B.java", "b/C.go", "docs/r.md", "x/y/Z.java", "cmd/main.go"}
	kinds := []string{"feat", "fix", "docs", "refactor", "chore"}
	var b []string
	b = append(b, "")
	n := t.Int(3, 10)
	if t.Bool(1, 4) {
		// a wide history: one change type touches a dozen files, another only a few
		for k := 0; k < 14; k++ {
			files = append(files, fmt.Sprintf("wide/F%02d.java", k))
		}
	}
	wide := len(files) > 6
	live := map[string]bool{}
	for i := 0; i < n; i++ {
		rev := fmt.Sprintf("%07x", 0xabc000+i*37+t.Pick(16))
		date := fmt.Sprintf("2019-%02d-%02d", 1+t.Pick(12), 1+t.Pick(27))
		if t.Bool(1, 12) {
			date = []string{"2999-01-01", "2031-03-09"}[t.Pick(2)] // an author date ahead of any clock (skewed machine)
		}
		msg := fmt.Sprintf("%s: change %d", kinds[t.Pick(len(kinds))], i)
		if t.Bool(1, 3) {
			msg = fmt.Sprintf("%s(core): change %d", kinds[t.Pick(len(kinds))], i)
		}
		b = append(b, fmt.Sprintf("[%s] %s %s %s", rev, authors[t.Pick(len(authors))], date, msg))
		nc := t.Int(1, 4)
		if wide && t.Bool(1, 3) {
			nc = t.Int(8, 14)
		}
		var summary []string
		seen := map[string]bool{}
		for c := 0; c < nc; c++ {
			f := files[t.Pick(len(files))]
			if seen[f] {
				continue
			}
			seen[f] = true
			switch k := t.Pick(10); {
			case k == 0 && live[f]: // rename inside a directory
				dir, base := f[:strings.LastIndex(f, "/")], f[strings.LastIndex(f, "/")+1:]
				nb := "N" + base
				b = append(b, fmt.Sprintf("%d\t%d\t%s/{%s => %s}", t.Pick(9), t.Pick(9), dir, base, nb))
				live[dir+"/"+nb] = true
				delete(live, f)
			case k == 1 && live[f]: // delete
				b = append(b, fmt.Sprintf("0\t%d\t%s", 1+t.Pick(20), f))
				summary = append(summary, " delete mode 100644 "+f)
				delete(live, f)
			default:
				b = append(b, fmt.Sprintf("%d\t%d\t%s", t.Pick(30), t.Pick(10), f))
				if !live[f] {
					summary = append(summary, " create mode 100644 "+f)
				}
				live[f] = true
			}
		}
		if t.Bool(1, 6) {
			// a deleted symbolic link: its summary line carries mode 120000
			summary = append(summary, " delete mode 120000 "+g_links[t.Pick(len(g_links))])
		}
		b = append(b, summary...)
		b = append(b, "")
	}
	if t.Bool(1, 16) {
		// a monorepo-sized tail: 30 commits touching 3000 new paths each (90 000 distinct entities):
		// whatever summarises names by fingerprints or in fixed-size tables meets real numbers
		for i := 0; i < 30; i++ {
			b = append(b, fmt.Sprintf("[%07x] %s 2020-%02d-%02d chore: import batch %d", 0xdef000+i, authors[t.Pick(len(authors))], 1+i%12, 1+i%27, i))
			for k := 0; k < 3000; k++ {
				b = append(b, fmt.Sprintf("%d\t%d\tmono/d%03d/f%05d.java", 1+k%7, k%3, (i*3000+k)%997, i*3000+k))
			}
			b = append(b, "")
		}
	}
	text := strings.Join(b, "\n") + "\n"
	if t.Bool(1, 3) {
		// the shape `coca git` really reads: the last commit is not followed by a blank line
		text = strings.TrimRight(text, "\n")
		if t.Bool(1, 2) {
			text += "\n delete mode 120000 " + g_links[t.Pick(len(g_links))]
		}
	}
	return text
}

var g_links = []string{"current", "docs/latest", "bin/tool"}

// TreeFile is one file of a small multi-language tree (carrier for the line-count report).
type TreeFile struct {
	Path string `json:"path"`
	Text string `json:"text"`
}

func GenClocTree(t *tape.Tape) []TreeFile {
	dirs := []string{"core", "web", "tools", "lib"}
	nd := t.Int(2, 4)
	var out []TreeFile
	mk := func(ext string, code, comment, blank int) string {
		var b []string
		for i := 0; i < comment; i++ {
			if ext == "py" {
				b = append(b, "# note")
			} else {
				b = append(b, "// note")
			}
		}
		for i := 0; i < blank; i++ {
			b = append(b, "")
		}
		for i := 0; i < code; i++ {
			switch ext {
			case "py":
				b = append(b, fmt.Sprintf("x%d = %d", i, i))
			case "go":
				if i == 0 {
					b = append(b, "package p")
				} else {
					b = append(b, fmt.Sprintf("var x%d = %d", i, i))
				}
			default:
				if i == 0 {
					b = append(b, "class K {")
				} else if i == code-1 {
					b = append(b, "}")
				} else {
					b = append(b, fmt.Sprintf("    int x%d = %d;", i, i))
				}
			}
		}
		return strings.Join(b, "\n") + "\n"
	}
	exts := []string{"java", "go", "py", "kt"}
	for d := 0; d < nd; d++ {
		nf := t.Int(1, 3)
		for f := 0; f < nf; f++ {
			ext := exts[t.Pick(len(exts))]
			out = append(out, TreeFile{Path: fmt.Sprintf("%s/f%d.%s", dirs[d], f, ext), Text: mk(ext, 2+t.Pick(8), t.Pick(3), t.Pick(3))})
		}
	}
	return out
}

// GenGoFile draws a small Go source file with several structs, interfaces and methods
// (carrier for the Go front-end's map-collected data structures).
func GenGoFile(t *tape.Tape) string {
	names := []string{"Zeta", "Alpha", "Mid", "Beta", "Omega"}
	n := t.Int(2, 5)
	var b []string
	b = append(b, "package demo", "", "import \"fmt\"", "")
	perm := t.Perm(len(names))
	for i := 0; i < n; i++ {
		nm := names[perm[i]]
		if t.Bool(1, 4) {
			b = append(b, fmt.Sprintf("type %s interface {", nm), "\tRun(x int) string", "\tStop()", "}", "")
			continue
		}
		b = append(b, fmt.Sprintf("type %s struct {", nm), "\tName string", "\tSize int", "}", "")
		for m := 0; m < t.Int(0, 2); m++ {
			b = append(b, fmt.Sprintf("func (r *%s) M%d(v int) int {", nm, m), "\tfmt.Println(v)", "\treturn v", "}", "")
		}
	}
	b = append(b, "func Free(a string) {", "\tfmt.Println(a)", "}")
	return strings.Join(b, "\n") + "\n"
}

// GitFileOp is one change of a commit in a real repository.
type GitFileOp struct {
	Kind string `json:"kind"` // write | delete | rename
	Path string `json:"path"`
	To   string `json:"to,omitempty"`
	Size int    `json:"size,omitempty"` // lines written
}

type GitCommit struct {
	Author string      `json:"author"`
	Date   string      `json:"date"`
	Msg    string      `json:"msg"`
	Ops    []GitFileOp `json:"ops"`
}

// GitRepo is a real history to be built with the git binary (carrier for `coca git`).
type GitRepo struct {
	IgnoreCase bool        `json:"ignore_case"` // core.ignorecase, as on macOS / Windows clones
	Commits    []GitCommit `json:"commits"`
}

func GenGitRepo(t *tape.Tape) *GitRepo {
	r := &GitRepo{IgnoreCase: t.Bool(1, 3)}
	authors := []string{"Ann Lee", "Bob", "Cy Young"}
	paths := []string{"README.md", "Readme.md", "src/A.java", "src/B.java", "docs/guide.md", "cmd/main.go", "src/a.java"}
	kinds := []string{"feat", "fix", "docs", "refactor"}
	live := map[string]bool{}
	n := t.Int(3, 6)
	for i := 0; i < n; i++ {
		c := GitCommit{Author: authors[t.Pick(len(authors))], Date: fmt.Sprintf("2020-%02d-%02dT10:00:00", 1+t.Pick(12), 1+t.Pick(27)), Msg: fmt.Sprintf("%s: step %d", kinds[t.Pick(len(kinds))], i)}
		k := t.Int(1, 3)
		for j := 0; j < k; j++ {
			p := paths[t.Pick(len(paths))]
			switch x := t.Pick(8); {
			case x == 0 && live[p]:
				c.Ops = append(c.Ops, GitFileOp{Kind: "delete", Path: p})
				delete(live, p)
			case x == 1 && live[p]:
				to := "moved/" + strings.ReplaceAll(p, "/", "_")
				if !live[to] {
					c.Ops = append(c.Ops, GitFileOp{Kind: "rename", Path: p, To: to})
					delete(live, p)
					live[to] = true
				}
			default:
				c.Ops = append(c.Ops, GitFileOp{Kind: "write", Path: p, Size: 1 + t.Pick(9) + i})
				live[p] = true
			}
		}
		if t.Bool(1, 3) {
			// two paths that differ only in letter case, touched by one commit
			pair := [][2]string{{"README.md", "Readme.md"}, {"src/A.java", "src/a.java"}}[t.Pick(2)]
			c.Ops = append(c.Ops, GitFileOp{Kind: "write", Path: pair[0], Size: 3 + i}, GitFileOp{Kind: "write", Path: pair[1], Size: 4 + i})
			live[pair[0]], live[pair[1]] = true, true
		}
		if len(c.Ops) == 0 {
			c.Ops = append(c.Ops, GitFileOp{Kind: "write", Path: "src/A.java", Size: 2 + i})
			live["src/A.java"] = true
		}
		r.Commits = append(r.Commits, c)
	}
	return r
}
