// Package gen holds the workload generators.  Everything is drawn from a
// tape.Tape, so a workload is a pure function of the choice sequence.
//
// The Java generator produces "conventional" compilation units in the sense of
// the properties: one package, imports, one top-level class or interface whose
// members are fields, constructors and methods, with bodies made of local
// declarations, assignments, if/for/while/switch/try/return and calls with
// implicit, this-, field-, parameter-, local-, static- and chained receivers,
// `new`, lambdas, method references and (optionally) anonymous classes.
// Identifiers come from small pools so that the same names recur across files
// and methods with different types: that is the bait the history-dependent
// properties need.
package gen

import (
	"fmt"
	"sort"
	"strings"

	"verif/internal/tape"
)

type JImport struct {
	Name     string `json:"name"` // qualified name; for wildcard without ".*"
	Static   bool   `json:"static,omitempty"`
	Wildcard bool   `json:"wildcard,omitempty"`
	// Used: ground truth for the unused-import role: "", "type", "annotation", "new", "static-receiver", "catch", "throws", "extends", "implements", "generic", "static-call"
	Used string `json:"used,omitempty"`
	Line int    `json:"line"` // 1-based line in the rendered file
}

type JParam struct {
	Annotations []string `json:"annotations,omitempty"`
	Type        string   `json:"type"`
	Name        string   `json:"name"`
}

type JField struct {
	Annotations []string `json:"annotations,omitempty"`
	Modifiers   string   `json:"modifiers,omitempty"`
	Type        string   `json:"type"`
	Name        string   `json:"name"`
	Init        string   `json:"init,omitempty"`
	// After > 0: the field is declared after the After-th method or constructor (singleton layout:
	// `static final R INSTANCE = new R(); private R() {} private final Map m = new HashMap();`)
	After int `json:"after,omitempty"`
}

type JMethod struct {
	Annotations []string `json:"annotations,omitempty"`
	Modifiers   string   `json:"modifiers,omitempty"`
	Ret         string   `json:"ret,omitempty"`
	Name        string   `json:"name"`
	Params      []JParam `json:"params,omitempty"`
	Throws      string   `json:"throws,omitempty"`
	Body        []string `json:"body,omitempty"` // statement lines, already indented relative to the body
	NoBody      bool     `json:"no_body,omitempty"`
	IsCtor      bool     `json:"ctor,omitempty"`
	TypeParams  string   `json:"type_params,omitempty"` // "<T>": a method with type parameters of its own
	Line        int      `json:"line"`                  // line of the declaration (first annotation or signature)
}

type JFile struct {
	ID          string    `json:"id"`   // logical id, stable across layouts
	Path        string    `json:"path"` // conventional relative path
	Pkg         string    `json:"pkg"`
	Imports     []JImport `json:"imports,omitempty"`
	Kind        string    `json:"kind"` // class | interface
	Name        string    `json:"name"`
	Annotations []string  `json:"annotations,omitempty"`
	Extends     string    `json:"extends,omitempty"`
	Implements  []string  `json:"implements,omitempty"`
	Fields      []JField  `json:"fields,omitempty"`
	Methods     []JMethod `json:"methods,omitempty"`
	// Nested: raw member blocks (nested interface / static class) rendered after the methods; outside
	// the "conventional" subset, used by the differential checks only
	Nested []string `json:"nested,omitempty"`
	// NestedFirst: member blocks rendered right after the class header, before fields and methods
	NestedFirst []string `json:"nested_first,omitempty"`
	// HeaderBytes > 0: a licence comment of at least that many bytes precedes the package line (sizes
	// around the usual buffer sizes: the first mention of anything interesting lies beyond them)
	HeaderBytes int `json:"header_bytes,omitempty"`
	// LegacyComment: a comment holding bytes that are not valid UTF-8 (a Latin-1 / GBK source); the
	// scenario carries a marker, the materialised file the bytes
	LegacyComment bool   `json:"legacy_comment,omitempty"`
	DupImport     bool   `json:"dup_import,omitempty"` // the first import line is written twice
	Text          string `json:"text"`
	// ground truth for the Spring role
	Apis []ApiTruth `json:"apis,omitempty"`
}

type ApiTruth struct {
	Verb   string `json:"verb"`
	Uri    string `json:"uri"`
	Body   string `json:"body"`
	Pkg    string `json:"pkg"`
	Class  string `json:"class"`
	Method string `json:"method"`
}

// Render lays the file out deterministically and records line numbers.
func (f *JFile) Render() {
	var b []string
	add := func(s string) { b = append(b, s) }
	if f.HeaderBytes > 0 {
		add("/*")
		for n, k := 3, 0; n < f.HeaderBytes; k++ {
			l := fmt.Sprintf(" * Licensed to the project under one or more contributor agreements (clause %d).", k)
			add(l)
			n += len(l) + 1
		}
		add(" */")
	}
	add("package " + f.Pkg + ";")
	if f.LegacyComment {
		add("// caf\u00a7LEGACY\u00a7 au lait: a comment in a legacy 8-bit encoding")
	}
	add("")
	for i := range f.Imports {
		im := &f.Imports[i]
		s := "import "
		if im.Static {
			s += "static "
		}
		s += im.Name
		if im.Wildcard {
			s += ".*"
		}
		add(s + ";")
		im.Line = len(b)
		if f.DupImport && i == 0 {
			add(s + ";") // the same import line once more (a merge leftover): legal Java
		}
	}
	if len(f.Imports) > 0 {
		add("")
	}
	for _, a := range f.Annotations {
		add(a)
	}
	head := "public " + f.Kind + " " + f.Name
	if f.Extends != "" {
		head += " extends " + f.Extends
	}
	if len(f.Implements) > 0 {
		if f.Kind == "interface" {
			head += " extends " + strings.Join(f.Implements, ", ")
		} else {
			head += " implements " + strings.Join(f.Implements, ", ")
		}
	}
	add(head + " {")
	for _, blk := range f.NestedFirst {
		for _, l := range strings.Split(blk, "\n") {
			add("    " + l)
		}
		add("")
	}
	addField := func(fl JField) {
		for _, a := range fl.Annotations {
			add("    " + a)
		}
		s := "    "
		if fl.Modifiers != "" {
			s += fl.Modifiers + " "
		}
		s += fl.Type + " " + fl.Name
		if fl.Init != "" {
			s += " = " + fl.Init
		}
		add(s + ";")
	}
	for _, fl := range f.Fields {
		if fl.After == 0 || len(f.Methods) == 0 {
			addField(fl)
		}
	}
	if len(f.Fields) > 0 {
		add("")
	}
	for i := range f.Methods {
		m := &f.Methods[i]
		m.Line = len(b) + 1
		for _, a := range m.Annotations {
			add("    " + a)
		}
		s := "    "
		if m.Modifiers != "" {
			s += m.Modifiers + " "
		}
		if m.TypeParams != "" {
			s += m.TypeParams + " "
		}
		if !m.IsCtor {
			s += m.Ret + " "
		}
		var ps []string
		for _, p := range m.Params {
			x := ""
			for _, a := range p.Annotations {
				x += a + " "
			}
			ps = append(ps, x+p.Type+" "+p.Name)
		}
		s += m.Name + "(" + strings.Join(ps, ", ") + ")"
		if m.Throws != "" {
			s += " throws " + m.Throws
		}
		if m.NoBody {
			add(s + ";")
		} else {
			add(s + " {")
			for _, l := range m.Body {
				add("        " + l)
			}
			add("    }")
		}
		for _, fl := range f.Fields {
			if fl.After == i+1 || (fl.After > len(f.Methods) && i == len(f.Methods)-1) {
				add("")
				addField(fl)
			}
		}
		if i != len(f.Methods)-1 {
			add("")
		}
	}
	for _, blk := range f.Nested {
		add("")
		for _, l := range strings.Split(blk, "\n") {
			add("    " + l)
		}
	}
	add("}")
	f.Text = strings.Join(b, "\n") + "\n"
}

// Options selects the roles a generated project plays.
type Options struct {
	MinFiles, MaxFiles int
	Controllers        bool // Spring controllers with ground truth (C12, C07, C08)
	ImportMix          bool // used/unused/wildcard/static imports with ground truth (C06)
	Anonymous          bool // anonymous classes inside methods
	Overloads          bool // overloaded methods and constructors (C08)
	Tests              bool // JUnit test classes with smells (C08)
	Lambdas            bool
	Interfaces         bool
	BigBodies          bool // more statements (bad smells)
	CollidingPkgs      bool // package names whose concatenations collide (C08 arch)
	TwinNames          bool // the same simple class name in two packages plus an un-imported user of it
	Getters            bool // extra getters/setters of differing lengths
	SamePkgConflict    bool // two files of one package using one simple name through different imports
	Services           bool // *Service classes with long parameter lists sharing parameter names
	Nested             bool // nested interface / static class members (beyond the conventional subset)
	Enums              bool // an enum file with field, constructor and method (beyond the conventional subset)
	PackageInfo        bool // a package-info.java (no type at all) in one package
	HalfWritten        bool // a source that stops inside its class header (an interrupted save)
	WideLine           bool // a one-line class wider than 64 Ki columns (differential checks only)
	Legacy             bool // one class has a method with hundreds of local variables (generated / legacy code)
	ServiceMethod      bool // @ServiceMethod on interface methods (coca reports their implementations as APIs); differential checks only
}

var (
	pkgPool      = []string{"a", "b", "x.y", "z", "ads.target.web", "tools.build", "javabook.ch1", "javax.ext"}
	collidePkgs  = []string{"p", "pq", "qr", "r", "p.q", "pq.r"}
	classPool    = []string{"Alpha", "Beta", "Gamma", "Delta", "Helper", "Repo", "Shape", "Other", "Svc", "Item", "Store", "Util", "OrderService", "UserService", "Order", "PurchaseOrder"}
	fieldNames   = []string{"repo", "svc", "helper", "item", "store", "shape"}
	paramNames   = []string{"svc", "item", "repo", "id", "name", "other"}
	localNames   = []string{"item", "tmp", "repo", "x", "helper", "res"}
	methodNames  = []string{"go", "run", "find", "save", "load", "getName", "setName", "build", "check", "apply", "open", "record", "exports", "with"} // the last four: contextual keywords of newer Java, ordinary method names
	externalTyps = []string{"java.util.List", "java.util.Map", "java.util.UUID", "java.util.Optional", "org.ext.Shape", "org.ext.Helper", "org.lib.Repo", "org.lib.Clock"}
	primitives   = []string{"int", "String", "boolean", "long"}
)

type Project struct {
	Files []*JFile `json:"files"`
}

type classInfo struct {
	pkg, name string
	methods   []string
	isIface   bool
}

type gctx struct {
	t       *tape.Tape
	o       Options
	classes []classInfo
	// forceField[i] = simple type name class i must hold in an un-imported field (same-package reference
	// to a simple name that also exists in another package: resolution must not depend on list order)
	forceField map[int]string
	// legacyFile: index of the class that gets the legacy method (Options.Legacy)
	legacyFile int
	// wideServices: every *Service class of the project has 6-10 long methods over ten shared parameter names
	wideServices bool
	// forceImport[i] = qualified type class/interface i must import and use (field type, or the
	// extended type of an interface): two files of one package using the same simple name with
	// different imports - a resolution must never be carried from one file to the other
	forceImport map[int]string
	// forceSvc[i] = method of interface i that carries @ServiceMethod (its twin's same-named method does not)
	forceSvc map[int]string
}

func (g *gctx) pick(ss []string) string { return ss[g.t.Pick(len(ss))] }

func simple(q string) string {
	if i := strings.LastIndex(q, "."); i >= 0 {
		return q[i+1:]
	}
	return q
}

// GenProject draws a project.
func GenProject(t *tape.Tape, o Options) *Project {
	g := &gctx{t: t, o: o}
	n := t.Int(o.MinFiles, o.MaxFiles)
	pkgs := pkgPool
	if o.CollidingPkgs {
		pkgs = collidePkgs
	}
	// decide class names and packages first, so bodies can refer to any class of the project
	used := map[string]bool{}
	for i := 0; i < n; i++ {
		name := classPool[t.Pick(len(classPool))]
		pkg := pkgs[t.Pick(len(pkgs))]
		for used[pkg+"."+name] {
			name = name + "X"
		}
		used[pkg+"."+name] = true
		ci := classInfo{pkg: pkg, name: name}
		ci.isIface = o.Interfaces && t.Bool(1, 5)
		nm := t.Int(1, 4)
		seen := map[string]bool{}
		for j := 0; j < nm; j++ {
			mn := g.pick(methodNames)
			if seen[mn] && !o.Overloads {
				continue
			}
			seen[mn] = true
			ci.methods = append(ci.methods, mn)
		}
		g.classes = append(g.classes, ci)
	}
	g.forceField = map[int]string{}
	g.forceSvc = map[int]string{}
	if o.Legacy {
		g.legacyFile = t.Pick(len(g.classes))
	}
	if o.Services {
		g.wideServices = t.Bool(1, 3)
	}
	if o.TwinNames && len(g.classes) >= 1 && t.Bool(2, 3) {
		c := g.classes[t.Pick(len(g.classes))]
		// a twin: same simple name in another package
		var other []string
		for _, p := range pkgs {
			if p != c.pkg && !used[p+"."+c.name] {
				other = append(other, p)
			}
		}
		if len(other) > 0 {
			twin := classInfo{pkg: other[t.Pick(len(other))], name: c.name, methods: []string{g.pick(methodNames)}, isIface: c.isIface}
			used[twin.pkg+"."+twin.name] = true
			shared := ""
			if o.ServiceMethod && t.Bool(1, 2) {
				// both twins are interfaces declaring the same method; only one marks it @ServiceMethod
				shared = g.pick(methodNames)
				for ci := range g.classes {
					if g.classes[ci].pkg == c.pkg && g.classes[ci].name == c.name {
						g.classes[ci].isIface = true
						g.classes[ci].methods = []string{shared}
						if t.Bool(1, 2) {
							g.forceSvc[ci] = shared
						}
					}
				}
				twin.isIface = true
				twin.methods = []string{shared}
			}
			g.classes = append(g.classes, twin)
			if shared != "" {
				if _, marked := g.forceSvc[len(g.classes)-2]; !marked && len(g.forceSvc) == 0 {
					g.forceSvc[len(g.classes)-1] = shared
				}
			}
			// a user of the name, living in one of the two packages, without an import
			userPkg := c.pkg
			if t.Bool(1, 2) {
				userPkg = twin.pkg
			}
			uname := classPool[t.Pick(len(classPool))]
			for used[userPkg+"."+uname] || uname == c.name {
				uname += "U"
			}
			used[userPkg+"."+uname] = true
			um := []string{g.pick(methodNames), "use"}
			if shared != "" {
				um = []string{shared, "use"}
			}
			g.classes = append(g.classes, classInfo{pkg: userPkg, name: uname, methods: um})
			g.forceField[len(g.classes)-1] = c.name
		}
	}
	g.forceImport = map[int]string{}
	if o.SamePkgConflict && t.Bool(1, 2) {
		pkg := g.classes[t.Pick(len(g.classes))].pkg
		simpleName := g.pick([]string{"Helper", "Shape", "Tracker"})
		quals := []string{"org.ext." + simpleName, "com.acme." + simpleName}
		ifaces := t.Bool(1, 2)
		for k := 0; k < 2; k++ {
			name := fmt.Sprintf("Conf%c", 'A'+k)
			for used[pkg+"."+name] {
				name += "X"
			}
			used[pkg+"."+name] = true
			g.classes = append(g.classes, classInfo{pkg: pkg, name: name, methods: []string{g.pick(methodNames)}, isIface: ifaces})
			g.forceImport[len(g.classes)-1] = quals[k]
		}
	}
	p := &Project{}
	for i := range g.classes {
		f := g.genFile(i)
		f.ID = fmt.Sprintf("f%d", i)
		f.Render()
		p.Files = append(p.Files, f)
	}
	if o.Enums && t.Bool(1, 2) {
		// an enum with a field, a constructor and a method as top-level type (beyond the conventional
		// subset; differential checks only): nothing of it may reach the file analysed next
		pkg := g.classes[t.Pick(len(g.classes))].pkg
		name := g.pick([]string{"OrderStatus", "Colour", "Mode"})
		var b []string
		b = append(b, "package "+pkg+";", "")
		if t.Bool(1, 2) {
			b = append(b, g.pick([]string{"@Deprecated", "@SuppressWarnings(\"unused\")", "@Generated(\"tool\")"}))
		}
		b = append(b, "public enum "+name+" {", "    OPEN(\"o\"), CLOSED(\"c\");", "", "    private final String label;", "")
		b = append(b, "    "+name+"(String label) {", "        this.label = label;", "    }", "")
		if t.Bool(1, 2) {
			b = append(b, "    @Override")
		}
		b = append(b, "    public String "+g.pick([]string{"getLabel", "toString", "run"})+"() {", "        return label;", "    }", "}")
		f := &JFile{ID: fmt.Sprintf("f%d", len(p.Files)), Pkg: pkg, Name: name, Kind: "enum"}
		f.Path = strings.ReplaceAll(pkg, ".", "/") + "/" + name + ".java"
		f.Text = strings.Join(b, "\n") + "\n"
		p.Files = append(p.Files, f)
		if t.Bool(1, 2) {
			// a class of the same package using the enum by its bare name
			un := name + "Painter"
			text := "package " + pkg + ";\n\npublic class " + un + " {\n    private " + name + " current = " + name + ".OPEN;\n\n    public " + name + " parse(String s) {\n        " + name + " v = " + name + ".valueOf(s);\n        if (v == " + name + ".CLOSED) {\n            return " + name + ".OPEN;\n        }\n        return v;\n    }\n}\n"
			u := &JFile{ID: fmt.Sprintf("f%d", len(p.Files)), Pkg: pkg, Name: un, Kind: "class", Text: text}
			u.Path = strings.ReplaceAll(pkg, ".", "/") + "/" + un + ".java"
			p.Files = append(p.Files, u)
		}
	}
	if o.PackageInfo {
		pkg := g.classes[t.Pick(len(g.classes))].pkg
		f := &JFile{ID: fmt.Sprintf("f%d", len(p.Files)), Pkg: pkg, Name: "package-info", Kind: "package-info"}
		f.Path = strings.ReplaceAll(pkg, ".", "/") + "/package-info.java"
		f.Text = "/**\n * Domain types of " + pkg + ".\n */\n@Deprecated\npackage " + pkg + ";\n"
		p.Files = append(p.Files, f)
	}
	if o.HalfWritten {
		// the file ends in the middle of the class header: the parser reports the error and goes on
		pkg := g.classes[t.Pick(len(g.classes))].pkg
		f := &JFile{ID: fmt.Sprintf("f%d", len(p.Files)), Pkg: pkg, Name: "OrderSeed", Kind: "class"}
		f.Path = strings.ReplaceAll(pkg, ".", "/") + "/OrderSeed.java"
		f.Text = "package " + pkg + ";\n\n@Service\npublic class OrderSeed"
		p.Files = append(p.Files, f)
	}
	if o.WideLine && t.Bool(1, 2) {
		// a machine-written class on ONE line, wider than 64 Ki columns: the methods b<i> start exactly
		// 65536 columns after the methods a<i> (positions that coincide once a column is cut to 16 bits)
		pkg := g.classes[t.Pick(len(g.classes))].pkg
		head := "package " + pkg + "; public class WideTable { "
		var as, bs string
		cell := func(m string) string { return m + strings.Repeat(" ", 48-len(m)) } // equal widths keep the pairs aligned
		for i := 0; i < 4; i++ {
			as += cell(fmt.Sprintf("public void a%d() { Left.x%d(); }", i, i))
			if i < 2 {
				bs += cell(fmt.Sprintf("public void b%d() { Right.y%d(); }", i, i))
			} else {
				bs += cell(fmt.Sprintf("public void a%d(int k) { Right.y%d(); }", i, i)) // an overload, 65536 columns to the right
			}
		}
		pad := strings.Repeat(" ", 65536-len(as))
		text := head + as + pad + bs + "}\n"
		f := &JFile{ID: fmt.Sprintf("f%d", len(p.Files)), Pkg: pkg, Name: "WideTable", Kind: "class", Text: text}
		f.Path = strings.ReplaceAll(pkg, ".", "/") + "/WideTable.java"
		p.Files = append(p.Files, f)
	}
	if o.ServiceMethod && t.Bool(1, 2) {
		// a service interface with a @ServiceMethod method, an implementor that imports it (coca reports
		// its method as an API), and a class implementing an interface it does not import that has a
		// method of the same name (no API): what the first leaves behind must not reach the second
		pkgs2 := []string{g.classes[t.Pick(len(g.classes))].pkg, g.classes[t.Pick(len(g.classes))].pkg, g.classes[t.Pick(len(g.classes))].pkg}
		m := g.pick(methodNames)
		mk := func(pkg, name, text string) {
			f := &JFile{ID: fmt.Sprintf("f%d", len(p.Files)), Pkg: pkg, Name: name, Kind: "class", Text: text}
			f.Path = strings.ReplaceAll(pkg, ".", "/") + "/" + name + ".java"
			p.Files = append(p.Files, f)
		}
		mk(pkgs2[0], "RemoteOrders", "package "+pkgs2[0]+";\n\npublic interface RemoteOrders {\n    @ServiceMethod\n    String "+m+"(String id);\n}\n")
		mk(pkgs2[1], "RemoteOrdersImpl", "package "+pkgs2[1]+";\n\nimport "+pkgs2[0]+".RemoteOrders;\n\npublic class RemoteOrdersImpl implements RemoteOrders {\n    @Override\n    public String "+m+"(String id) {\n        return id;\n    }\n}\n")
		mk(pkgs2[2], "LocalWorker", "package "+pkgs2[2]+";\n\npublic class LocalWorker implements LocalSpec {\n    public String "+m+"(String id) {\n        return id;\n    }\n\n    public void tick() {\n    }\n}\n")
	}
	if o.Enums && t.Bool(1, 3) {
		// an annotation type: annotated itself, no class or interface body
		pkg := g.classes[t.Pick(len(g.classes))].pkg
		name := g.pick([]string{"Audited", "ApiController", "Marker"})
		text := "package " + pkg + ";\n\n@Retention(RetentionPolicy.RUNTIME)\n@Target(ElementType.TYPE)\n"
		if o.Controllers && t.Bool(1, 2) {
			text += "@RestController\n"
		}
		text += "public @interface " + name + " {\n    String value() default \"\";\n}\n"
		f := &JFile{ID: fmt.Sprintf("f%d", len(p.Files)), Pkg: pkg, Name: name, Kind: "annotation"}
		f.Path = strings.ReplaceAll(pkg, ".", "/") + "/" + name + ".java"
		f.Text = text
		p.Files = append(p.Files, f)
	}
	return p
}

// typeRef returns a type usable in file fi and the import it needs ("" if none).
func (g *gctx) typeRef(fi int) (typ string, imp string) {
	self := g.classes[fi]
	switch k := g.t.Pick(10); {
	case k <= 4 && len(g.classes) > 0:
		c := g.classes[g.t.Pick(len(g.classes))]
		if c.pkg == self.pkg {
			return c.name, ""
		}
		return c.name, c.pkg + "." + c.name
	case k <= 7:
		q := g.pick(externalTyps)
		return simple(q), q
	default:
		return g.pick(primitives), ""
	}
}

func (g *gctx) genFile(fi int) *JFile {
	t := g.t
	ci := g.classes[fi]
	f := &JFile{Pkg: ci.pkg, Name: ci.name, Kind: "class"}
	f.Path = strings.ReplaceAll(ci.pkg, ".", "/") + "/" + ci.name + ".java"
	if ci.isIface {
		f.Kind = "interface"
	}
	imports := map[string]bool{}
	need := func(q string) {
		if q != "" {
			imports[q] = true
		}
	}
	// inheritance
	if f.Kind == "class" {
		if t.Bool(1, 4) {
			typ, imp := g.typeRefClass(fi)
			if typ != ci.name {
				f.Extends = typ
				need(imp)
			}
		}
		if t.Bool(1, 3) {
			// implements an interface: of the own package (no import) or imported
			typ, imp := g.typeRefClass(fi)
			if typ != ci.name {
				f.Implements = append(f.Implements, typ)
				need(imp)
			}
		}
	}
	if f.Kind == "interface" && t.Bool(1, 2) {
		// an interface extending another type: resolved through the file's imports
		typ, imp := g.typeRefClass(fi)
		if typ != ci.name {
			f.Implements = append(f.Implements, typ)
			need(imp)
		}
	}
	// class annotations
	ifaceMapped := false
	isController := false
	base := ""
	if g.o.Controllers && f.Kind == "class" {
		switch k := t.Pick(6); {
		case k <= 2: // controller
			isController = true
			if t.Bool(1, 2) {
				f.Annotations = append(f.Annotations, "@RestController")
			} else {
				f.Annotations = append(f.Annotations, "@Controller")
			}
			switch t.Pick(3) {
			case 0:
			case 1:
				base = "/" + strings.ToLower(ci.name)
				switch t.Pick(6) {
				case 0:
					base = "/api/v1/" + strings.ToLower(ci.name)
				case 1:
					base = "/api/" + strings.ToLower(ci.name) + "/" // trailing slash: concatenated as written
				case 2:
					base = "api/" + strings.ToLower(ci.name) // no leading slash (Spring adds it at run time; reported as written)
				}
				f.Annotations = append(f.Annotations, fmt.Sprintf("@RequestMapping(%q)", base))
			case 2:
				base = "/" + strings.ToLower(ci.name) + "s"
				f.Annotations = append(f.Annotations, fmt.Sprintf("@RequestMapping(%s = %q)", g.pick([]string{"value", "value", "path"}), base))
			}
			if len(f.Annotations) == 2 && t.Bool(1, 4) {
				// Java does not order annotations: the mapping may be written before the controller annotation
				f.Annotations[0], f.Annotations[1] = f.Annotations[1], f.Annotations[0]
			}
			// other class-level annotations after the controller annotation, before or after the mapping
			if t.Bool(1, 3) {
				extra := g.pick([]string{"@CrossOrigin(\"*\")", "@SuppressWarnings(\"unchecked\")", "@Secured(\"ROLE_X\")", "@Api(tags = \"x\")", "@Validated", "@Scope(\"request\")"})
				if len(f.Annotations) > 1 && t.Bool(1, 2) {
					f.Annotations = append(append([]string{}, f.Annotations[:1]...), append([]string{extra}, f.Annotations[1:]...)...)
				} else {
					f.Annotations = append(f.Annotations, extra)
				}
			}
			if t.Bool(1, 10) {
				// a nested record with an implements clause and a method, declared before the handlers
				f.NestedFirst = append(f.NestedFirst, "record Pair(int a, int b) implements Comparable<Pair> {\n    public int compareTo(Pair o) {\n        return 0;\n    }\n}")
			}
		case k == 3: // plain class carrying mapping annotations but no controller annotation
			f.Annotations = append(f.Annotations, "@Component")
		}
	} else if g.o.Controllers && f.Kind == "interface" && t.Bool(1, 3) {
		// an interface carrying controller and mapping annotations: its methods are not handler
		// methods of a class, so it contributes nothing - and must leave nothing behind either
		f.Annotations = append(f.Annotations, g.pick([]string{"@RestController", "@Controller"}))
		if t.Bool(1, 2) {
			f.Annotations = append(f.Annotations, fmt.Sprintf("@RequestMapping(%q)", "/"+strings.ToLower(ci.name)))
		}
		ifaceMapped = true
	} else if t.Bool(1, 4) {
		f.Annotations = append(f.Annotations, g.pick([]string{"@Component", "@Service", "@Deprecated", "@SuppressWarnings(\"unchecked\")"}))
	}
	f.LegacyComment = t.Bool(1, 10)
	f.DupImport = t.Bool(1, 8)
	if t.Bool(1, 10) {
		f.HeaderBytes = []int{600, 4100, 8200, 16400, 33000, 65600}[t.Pick(6)]
	}
	// fields
	fieldTypes := map[string]string{}
	if f.Kind == "class" {
		nf := t.Int(0, 3)
		interleaved := t.Bool(1, 3) // fields with initialisers between the constructors and methods
		if interleaved && nf < 2 {
			nf = 2 + t.Pick(2)
		}
		for i := 0; i < nf; i++ {
			typ, imp := g.typeRef(fi)
			name := g.pick(fieldNames)
			if _, dup := fieldTypes[name]; dup {
				continue
			}
			need(imp)
			fl := JField{Modifiers: g.pick([]string{"private", "private final", "protected", ""}), Type: typ, Name: name}
			if t.Bool(1, 5) {
				fl.Annotations = []string{"@Autowired"}
			}
			if typ == "List" || typ == "Map" || typ == "Optional" {
				inner, imp2 := g.typeRefClass(fi)
				need(imp2)
				if typ == "Map" {
					fl.Type = "Map<String, " + inner + ">"
				} else {
					fl.Type = typ + "<" + inner + ">"
				}
			}
			initOdds := 5
			if interleaved {
				initOdds = 2
			}
			if t.Bool(1, initOdds) && !strings.Contains(fl.Type, "<") && strings.ToUpper(fl.Type[:1]) == fl.Type[:1] && fl.Type != "String" {
				fl.Init = "new " + fl.Type + "()" // an initialiser: a creation outside any method
			} else if t.Bool(1, initOdds+3) {
				fl.Init = g.pick(classPool) + "." + g.pick(methodNames) + "()" // a call outside any method
			}
			if interleaved {
				// the singleton layout: an initialised field, a constructor or method, more initialised fields
				if fl.Init == "" {
					fl.Init = g.pick(classPool) + "." + g.pick(methodNames) + "()"
				}
				if i > 0 {
					fl.After = 1 + t.Pick(2)
				}
			}
			fieldTypes[name] = fl.Type
			f.Fields = append(f.Fields, fl)
		}
	}
	if q, ok := g.forceImport[fi]; ok {
		need(q)
		if f.Kind == "interface" {
			f.Implements = []string{simple(q)}
		} else {
			f.Fields = append(f.Fields, JField{Modifiers: "private", Type: simple(q), Name: "conf"})
			fieldTypes["conf"] = simple(q)
		}
	}
	if ft, ok := g.forceField[fi]; ok && f.Kind == "class" {
		f.Fields = append(f.Fields, JField{Modifiers: "private", Type: ft, Name: "twin"})
		fieldTypes["twin"] = ft
		if t.Bool(1, 2) {
			f.Implements = []string{ft} // also implemented, still without an import
		}
	}
	// constructors
	if f.Kind == "class" && t.Bool(1, 3) {
		nctor := 1
		if g.o.Overloads && t.Bool(1, 2) {
			nctor = 2
		}
		for c := 0; c < nctor; c++ {
			m := JMethod{Modifiers: "public", Name: ci.name, IsCtor: true}
			np := c + t.Int(0, 1)
			locals := map[string]string{}
			for i := 0; i < np; i++ {
				typ, imp := g.typeRef(fi)
				need(imp)
				pn := g.pick(paramNames)
				if _, dup := locals[pn]; dup {
					continue
				}
				locals[pn] = typ
				m.Params = append(m.Params, JParam{Type: typ, Name: pn})
			}
			for _, p := range m.Params {
				if ft, ok := fieldTypes[p.Name]; ok && ft == p.Type {
					m.Body = append(m.Body, "this."+p.Name+" = "+p.Name+";")
				}
			}
			m.Body = append(m.Body, g.genBody(fi, fieldTypes, locals, need, 0, 2)...)
			f.Methods = append(f.Methods, m)
		}
	}
	// methods
	for mi, mn := range ci.methods {
		defaultThis := false
		m := JMethod{Name: mn, Modifiers: "public"}
		if f.Kind == "interface" {
			m.Modifiers = ""
			m.NoBody = true
			if t.Bool(1, 3) {
				// a default method (Spring-Data style) calling through this
				m.Modifiers = "default"
				m.NoBody = false
				defaultThis = true
			}
		} else if t.Bool(1, 5) {
			m.Modifiers = g.pick([]string{"private", "protected", "public static", "static public", "public final", "public synchronized"})
		}
		// return type
		switch k := t.Pick(4); {
		case k == 0:
			m.Ret = "void"
		case k == 1:
			m.Ret = g.pick(primitives)
		default:
			typ, imp := g.typeRefClass(fi)
			need(imp)
			m.Ret = typ
		}
		locals := map[string]string{}
		np := t.Int(0, 3)
		for i := 0; i < np; i++ {
			typ, imp := g.typeRef(fi)
			need(imp)
			pn := g.pick(paramNames)
			if _, dup := locals[pn]; dup {
				continue
			}
			locals[pn] = typ
			m.Params = append(m.Params, JParam{Type: typ, Name: pn})
		}
		if t.Bool(1, 4) {
			m.Annotations = append(m.Annotations, "@Override")
		}
		if t.Bool(1, 6) {
			m.Annotations = append(m.Annotations, g.pick([]string{"@Transactional(readOnly = true)", "@Nullable", "@CheckForNull", "@Deprecated", "@SuppressWarnings(\"unchecked\")", "@Cacheable(value = \"c\", key = \"k\")"}))
		}
		if !m.NoBody && t.Bool(1, 8) {
			m.Throws = g.pick([]string{"Exception", "IllegalStateException, Exception"})
		}
		if len(m.Params) > 0 && t.Bool(1, 6) {
			k := t.Pick(len(m.Params))
			if !strings.Contains(m.Params[k].Type, "<") {
				m.Params[k].Type += "[]"
				locals[m.Params[k].Name] = m.Params[k].Type
			}
		}
		// Spring handler roles
		if g.o.Controllers && f.Kind == "class" && (isController || len(f.Annotations) > 0 && f.Annotations[0] == "@Component") && t.Bool(2, 3) {
			path := "/" + mn
			switch t.Pick(8) {
			case 0:
				path = ""
			case 1:
				path = "/" + mn + "/{id}"
			case 2:
				path = mn // no leading slash: concatenated as written
			case 3:
				path = "/" + mn + "/{id}/items/{item}"
			}
			verb := ""
			var ann string
			switch t.Pick(6) {
			case 0:
				verb = "GET"
				ann = "@GetMapping"
			case 1:
				verb = "POST"
				ann = "@PostMapping"
			case 2:
				verb = "PUT"
				ann = "@PutMapping"
			case 3:
				verb = "DELETE"
				ann = "@DeleteMapping"
			case 4:
				verb = g.pick([]string{"GET", "POST", "PUT", "DELETE"})
				if path == "" {
					path = "/" + mn
				}
				ann = fmt.Sprintf("@RequestMapping(value = %q, method = RequestMethod.%s)", path, verb)
			case 5:
				verb = g.pick([]string{"GET", "POST", "PUT", "DELETE"})
				if path == "" {
					path = "/" + mn
				}
				ann = fmt.Sprintf("@RequestMapping(method = RequestMethod.%s, value = %q)", verb, path)
			}
			if !strings.HasPrefix(ann, "@RequestMapping") && path != "" {
				switch k := t.Pick(12); {
				case k <= 2:
					ann += fmt.Sprintf("(value = %q)", path) // the value= form of the verb-specific annotations
				case k == 3:
					ann += fmt.Sprintf("(path = %q)", path) // path is Spring's alias of value
				case k == 4:
					ann += fmt.Sprintf("({%q})", path) // a one-element array of paths
				case k == 5:
					ann += fmt.Sprintf("(value = {%q})", path)
				default:
					ann += fmt.Sprintf("(%q)", path)
				}
			} else if strings.HasPrefix(ann, "@RequestMapping") && path != "" && t.Bool(1, 5) {
				ann = strings.Replace(ann, "value = ", "path = ", 1)
			}
			m.Annotations = append(m.Annotations, ann)
			m.Modifiers = "public"
			body := ""
			if len(m.Params) > 0 && t.Bool(1, 2) {
				k := t.Pick(len(m.Params))
				switch t.Pick(5) {
				case 4:
					m.Params[k].Annotations = append(m.Params[k].Annotations, "@RequestBody(required = false)")
				case 0:
					m.Params[k].Annotations = append(m.Params[k].Annotations, "@RequestBody", "@Valid")
				case 1:
					m.Params[k].Annotations = append(m.Params[k].Annotations, "@Valid", "@RequestBody")
				default:
					m.Params[k].Annotations = append(m.Params[k].Annotations, "@RequestBody")
				}
				if t.Bool(1, 6) {
					// a nested or package-qualified body type: reported as written
					m.Params[k].Type = g.pick([]string{"OrderRequests.Create", "com.acme.dto.UpdateOrder", "List<com.acme.dto.UpdateOrder>", "Outer.Inner.Deep"})
				}
				body = m.Params[k].Type
			}
			for pi := range m.Params {
				if len(m.Params[pi].Annotations) == 0 && t.Bool(1, 3) {
					m.Params[pi].Annotations = append(m.Params[pi].Annotations, g.pick([]string{fmt.Sprintf("@PathVariable(%q)", m.Params[pi].Name), "@RequestParam", fmt.Sprintf("@RequestParam(value = %q, required = false)", m.Params[pi].Name), "@Valid"}))
				}
				if t.Bool(1, 8) {
					// `final` is a variable modifier like an annotation: before or after them
					if t.Bool(1, 2) || len(m.Params[pi].Annotations) == 0 {
						m.Params[pi].Annotations = append(m.Params[pi].Annotations, "final")
					} else {
						m.Params[pi].Annotations = append([]string{"final"}, m.Params[pi].Annotations...)
					}
				}
			}
			if t.Bool(1, 6) {
				m.Ret = "ResponseEntity<List<" + g.pick(classPool) + ">>"
			}
			if isController {
				f.Apis = append(f.Apis, ApiTruth{Verb: verb, Uri: base + path, Body: body, Pkg: ci.pkg, Class: ci.name, Method: mn})
			}
		}
		if sm, ok := g.forceSvc[fi]; ok && sm == mn {
			m.Annotations = append(m.Annotations, "@ServiceMethod")
		} else if g.o.ServiceMethod && f.Kind == "interface" && len(g.forceSvc) == 0 && t.Bool(1, 4) {
			m.Annotations = append(m.Annotations, "@ServiceMethod") // coca reports implementations of such methods as APIs
		}
		if ifaceMapped && t.Bool(2, 3) {
			m.Annotations = append(m.Annotations, g.pick([]string{"@GetMapping(\"/" + mn + "\")", "@PostMapping", "@RequestMapping(value = \"/" + mn + "\", method = RequestMethod.GET)"}))
		}
		if !m.NoBody {
			maxStmts := 4
			if g.o.BigBodies {
				maxStmts = 9
			}
			m.Body = g.genBody(fi, fieldTypes, locals, need, 0, maxStmts)
			if defaultThis {
				m.Body = append([]string{"this." + g.pick(methodNames) + "(1).go();", "this.toString();"}, m.Body...)
			}
			if t.Bool(1, 10) {
				m.TypeParams = g.pick([]string{"<T>", "<T extends Comparable<T>>", "<K, V>"})
			}
			if m.Ret != "void" {
				m.Body = append(m.Body, "return "+g.valueOf(m.Ret, locals, fieldTypes)+";")
			}
		}
		_ = mi
		f.Methods = append(f.Methods, m)
	}
	if g.o.Legacy && f.Kind == "class" && fi == g.legacyFile {
		// a legacy method: locals named like the fields other classes use, then a long run of numbered
		// ones (symbol tables of 120..300 entries: around the sizes at which tables get reallocated)
		m := JMethod{Modifiers: "public", Ret: "void", Name: "legacyInit"}
		for _, n := range fieldNames {
			typ, imp := g.typeRefClass(fi)
			need(imp)
			m.Body = append(m.Body, typ+" "+n+" = null;")
		}
		count := []int{120, 130, 200, 300}[t.Pick(4)]
		for k := 0; k < count; k++ {
			m.Body = append(m.Body, fmt.Sprintf("int v%d = %d;", k, k))
		}
		f.Methods = append(f.Methods, m)
	}
	// service-style methods with long parameter lists sharing parameter names (evaluation summary)
	if g.o.Services && f.Kind == "class" && strings.Contains(strings.ToLower(ci.name), "service") {
		pool := []string{"tenant", "user", "order", "amount", "currency", "note"}
		ns := t.Int(2, 4)
		if g.wideServices {
			// many long methods sharing ten parameter names: dozens of frequent name sets per size
			pool = append(pool, "channel", "region", "locale", "trace")
			ns = t.Int(6, 10)
		}
		for i := 0; i < ns; i++ {
			m := JMethod{Modifiers: "public", Name: g.pick([]string{"create", "update", "cancel", "createDraft", "updateAll"}) + fmt.Sprintf("%d", i), Ret: "void"}
			skip := t.Pick(len(pool) + 2)
			if g.wideServices {
				// four names in every method, each of the other six missing from every sixth method: every
				// single name is frequent, the six are not frequent together - several largest name sets
				skip = 4 + i%6
			}
			for k, pn := range pool {
				if k == skip {
					continue
				}
				m.Params = append(m.Params, JParam{Type: g.pick([]string{"String", "long", "int"}), Name: pn})
			}
			m.Body = []string{g.pick(methodNames) + "();"}
			f.Methods = append(f.Methods, m)
		}
	}
	if g.o.Overloads && f.Kind == "class" && t.Bool(1, 4) {
		// two overloads written on ONE line (valid, if unusual, layout): their order must not be left to chance
		a, imp := g.typeRefClass(fi)
		need(imp)
		b2, imp2 := g.typeRefClass(fi)
		need(imp2)
		nm := g.pick(methodNames)
		f.Nested = append(f.Nested, fmt.Sprintf("public void %s() { %s.%s(); } public void %s(int a) { %s.%s(); }", nm, a, g.pick(methodNames), nm, b2, g.pick(methodNames)))
	}
	if g.o.Nested && f.Kind == "class" && t.Bool(1, 3) {
		nm := g.pick([]string{"Builder", "Callback", "Inner"})
		var b []string
		if t.Bool(1, 2) {
			b = append(b, "public interface "+nm+" {")
			if g.o.Controllers && t.Bool(1, 2) {
				b = append(b, "    @GetMapping(\"/"+strings.ToLower(nm)+"\")")
			} else if t.Bool(1, 2) {
				b = append(b, "    @Override")
			}
			b = append(b, "    void on"+nm+"(String name);")
			b = append(b, "}")
		} else {
			b = append(b, "public static class "+nm+" {")
			b = append(b, "    private String name;")
			if g.o.Controllers && t.Bool(1, 3) {
				b = append(b, "    @PostMapping(\"/"+strings.ToLower(nm)+"\")")
			}
			b = append(b, "    public "+ci.name+" build() {")
			b = append(b, "        "+g.callExpr(fi, fieldTypes, map[string]string{}, need)+";")
			b = append(b, "        return null;")
			b = append(b, "    }")
			b = append(b, "}")
		}
		f.Nested = append(f.Nested, strings.Join(b, "\n"))
		if t.Bool(1, 2) {
			// a sibling nested class, itself holding a nested class (two levels)
			sib := []string{"public static class Entry {", "    private String key;", "", "    public String getKey() {", "        return key;", "    }"}
			if t.Bool(1, 2) {
				sib = append(sib, "", "    public static class Meta {", "        public int size() {", "            return 0;", "        }", "    }")
			}
			sib = append(sib, "}")
			f.Nested = append(f.Nested, strings.Join(sib, "\n"))
			if t.Bool(1, 2) {
				f.Nested = append(f.Nested, "public static class Totals {\n    public int sum() {\n        return 0;\n    }\n}")
			}
		}
	}
	// getters/setters of differing lengths (evaluation summary: lengths and their deviation)
	if g.o.Getters && f.Kind == "class" {
		ng := t.Int(1, 3)
		for i := 0; i < ng; i++ {
			prop := g.pick([]string{"Name", "Size", "Owner", "Code"})
			kind := g.pick([]string{"get", "set"})
			m := JMethod{Modifiers: "public", Name: kind + prop + fmt.Sprintf("%d", i), Ret: "void"}
			for k := 0; k < t.Int(0, 4); k++ {
				m.Body = append(m.Body, fmt.Sprintf("int pad%d = %d;", k, k))
			}
			f.Methods = append(f.Methods, m)
		}
	}
	// imports, in a drawn order
	var imps []string
	for q := range imports {
		if ft, ok := g.forceField[fi]; ok && simple(q) == ft {
			continue // the twin name must stay un-imported in its user
		}
		if fq, ok := g.forceImport[fi]; ok && simple(q) == simple(fq) && q != fq {
			continue // exactly one import for the conflicting simple name
		}
		imps = append(imps, q)
	}
	sort.Strings(imps)
	perm := t.Perm(len(imps))
	for _, i := range perm {
		f.Imports = append(f.Imports, JImport{Name: imps[i], Used: "type"})
	}
	if g.o.Controllers && (isController || len(f.Apis) > 0) {
		f.Imports = append(f.Imports, JImport{Name: "org.springframework.web.bind.annotation", Wildcard: true})
	}
	return f
}

// typeRefClass returns a class-like type (never a primitive).
func (g *gctx) typeRefClass(fi int) (string, string) {
	for i := 0; i < 8; i++ {
		typ, imp := g.typeRef(fi)
		isPrim := false
		for _, p := range primitives {
			if p == typ {
				isPrim = true
			}
		}
		if !isPrim && typ != "List" && typ != "Map" && typ != "Optional" {
			return typ, imp
		}
	}
	return "Object", ""
}

func (g *gctx) valueOf(typ string, locals, fields map[string]string) string {
	switch typ {
	case "int", "long":
		return fmt.Sprintf("%d", g.t.Pick(5))
	case "boolean":
		return g.pick([]string{"true", "false"})
	case "String":
		return g.pick([]string{"\"\"", "\"x\"", "null"})
	}
	// a matching variable or null / new
	var cands []string
	for n, ty := range locals {
		if ty == typ {
			cands = append(cands, n)
		}
	}
	for n, ty := range fields {
		if ty == typ {
			cands = append(cands, n)
		}
	}
	sort.Strings(cands)
	switch k := g.t.Pick(3); {
	case k == 0 && len(cands) > 0:
		return cands[g.t.Pick(len(cands))]
	case k == 1:
		return "null"
	}
	if typ == "Object" || strings.Contains(typ, "<") {
		return "null"
	}
	return "new " + typ + "()"
}

// receivers available: fields, params/locals, project classes (static), inherited (undeclared) names
func (g *gctx) receiver(fi int, fields, locals map[string]string, need func(string)) string {
	t := g.t
	var fs, ls []string
	for n := range fields {
		fs = append(fs, n)
	}
	for n := range locals {
		ls = append(ls, n)
	}
	sort.Strings(fs)
	sort.Strings(ls)
	switch k := t.Pick(10); {
	case k <= 2 && len(fs) > 0:
		return fs[t.Pick(len(fs))]
	case k == 3 && len(fs) > 0:
		return "this." + fs[t.Pick(len(fs))]
	case k <= 6 && len(ls) > 0:
		return ls[t.Pick(len(ls))]
	case k == 7:
		// static receiver: a class of the project or an external one
		typ, imp := g.typeRefClass(fi)
		need(imp)
		return typ
	case k == 8:
		// a name declared nowhere in this file (an inherited field): resolution must not borrow it from elsewhere
		return g.pick(fieldNames)
	}
	return ""
}

func (g *gctx) callExpr(fi int, fields, locals map[string]string, need func(string)) string {
	t := g.t
	recv := g.receiver(fi, fields, locals, need)
	mn := g.pick(methodNames)
	args := ""
	switch t.Pick(4) {
	case 1:
		args = g.pick([]string{"1", "\"a\"", "true", "null"})
	case 2:
		var ls []string
		for n := range locals {
			ls = append(ls, n)
		}
		sort.Strings(ls)
		if len(ls) > 0 {
			args = ls[t.Pick(len(ls))]
		}
	case 3:
		args = "1, 1"
	}
	call := mn + "(" + args + ")"
	if recv != "" {
		call = recv + "." + call
	}
	if t.Bool(1, 6) {
		call += "." + g.pick(methodNames) + "()"
	}
	return call
}

func (g *gctx) genBody(fi int, fields, locals map[string]string, need func(string), depth int, max int) []string {
	t := g.t
	n := t.Int(0, max)
	var out []string
	// locals declared here are visible to later statements of this body
	for i := 0; i < n; i++ {
		switch k := t.Pick(18); {
		case k <= 3: // call statement
			out = append(out, g.callExpr(fi, fields, locals, need)+";")
		case k <= 5: // local declaration with creation or call
			typ, imp := g.typeRefClass(fi)
			need(imp)
			name := g.pick(localNames)
			if _, dup := locals[name]; dup {
				out = append(out, g.callExpr(fi, fields, locals, need)+";")
				continue
			}
			locals[name] = typ
			if t.Bool(1, 2) && typ != "Object" {
				out = append(out, fmt.Sprintf("%s %s = new %s();", typ, name, typ))
			} else {
				out = append(out, fmt.Sprintf("%s %s = %s;", typ, name, g.callExpr(fi, fields, locals, need)))
			}
		case k == 6: // assignment to a field
			var fs []string
			for n, ty := range fields {
				if !strings.Contains(ty, "<") {
					fs = append(fs, n)
				}
			}
			sort.Strings(fs)
			if len(fs) == 0 {
				out = append(out, g.callExpr(fi, fields, locals, need)+";")
				continue
			}
			fn := fs[t.Pick(len(fs))]
			out = append(out, fmt.Sprintf("this.%s = %s;", fn, g.valueOf(fields[fn], locals, fields)))
		case k == 7 && depth < 2: // if
			out = append(out, "if ("+g.cond(fi, fields, locals, need)+") {")
			out = append(out, indent(g.genBody(fi, fields, copyMap(locals), need, depth+1, 2))...)
			if t.Bool(1, 3) {
				out = append(out, "} else {")
				out = append(out, indent(g.genBody(fi, fields, copyMap(locals), need, depth+1, 2))...)
			}
			out = append(out, "}")
		case k == 8 && depth < 2: // for
			out = append(out, "for (int i = 0; i < 3; i++) {")
			out = append(out, indent(g.genBody(fi, fields, copyMap(locals), need, depth+1, 2))...)
			out = append(out, "}")
		case k == 9 && depth < 2: // while
			out = append(out, "while ("+g.cond(fi, fields, locals, need)+") {")
			out = append(out, indent(g.genBody(fi, fields, copyMap(locals), need, depth+1, 2))...)
			out = append(out, "    break;")
			out = append(out, "}")
		case k == 10 && depth < 2: // switch
			out = append(out, "switch ("+fmt.Sprintf("%d", t.Pick(3))+") {")
			out = append(out, "    case 1:")
			out = append(out, indent(indent(g.genBody(fi, fields, copyMap(locals), need, depth+1, 1)))...)
			out = append(out, "        break;")
			out = append(out, "    default:")
			out = append(out, "        break;")
			out = append(out, "}")
		case k == 11 && depth < 2: // try/catch
			out = append(out, "try {")
			out = append(out, indent(g.genBody(fi, fields, copyMap(locals), need, depth+1, 2))...)
			out = append(out, "} catch (Exception e) {")
			out = append(out, "    "+g.callExpr(fi, fields, locals, need)+";")
			out = append(out, "}")
		case k == 12 && g.o.Lambdas: // lambda / method reference
			typ, imp := g.typeRefClass(fi)
			need(imp)
			need("java.util.List")
			name := "list" + fmt.Sprintf("%d", depth)
			if _, dup := locals[name]; dup {
				out = append(out, g.callExpr(fi, fields, locals, need)+";")
				continue
			}
			locals[name] = "List<" + typ + ">"
			out = append(out, fmt.Sprintf("List<%s> %s = null;", typ, name))
			if t.Bool(1, 2) {
				out = append(out, fmt.Sprintf("%s.forEach(v -> v.%s());", name, g.pick(methodNames)))
			} else if typ != "Object" {
				out = append(out, fmt.Sprintf("%s.forEach(%s::%s);", name, typ, g.pick(methodNames)))
			}
		case k == 13 && g.o.Anonymous && depth == 0: // anonymous class with a method
			if t.Bool(1, 3) {
				// an anonymous class of a nested (dotted) type: new View.OnClickListener() { .. }
				out = append(out, fmt.Sprintf("Object %s = new View.OnClickListener() {", "listener"+fmt.Sprintf("%d", t.Pick(3))))
			} else {
				out = append(out, fmt.Sprintf("Runnable %s = new Runnable() {", "task"+fmt.Sprintf("%d", t.Pick(3))))
			}
			out = append(out, "    @Override")
			out = append(out, "    public void "+g.pick([]string{"run", "go", "apply"})+"() {")
			out = append(out, "        "+g.callExpr(fi, fields, locals, need)+";")
			out = append(out, "    }")
			out = append(out, "};")
		case k == 14 && depth < 2: // enhanced for over a collection
			typ, imp := g.typeRefClass(fi)
			need(imp)
			need("java.util.List")
			out = append(out, fmt.Sprintf("for (%s each : (List<%s>) null) {", typ, typ))
			inner := copyMap(locals)
			inner["each"] = typ
			out = append(out, indent(g.genBody(fi, fields, inner, need, depth+1, 2))...)
			out = append(out, "}")
		case k == 16 && g.o.Nested: // qualified inner-class creation: outer.new Inner()
			recv := g.receiver(fi, fields, locals, need)
			if recv == "" {
				recv = "this"
			}
			out = append(out, fmt.Sprintf("Object in%d = %s.new %s();", depth, recv, g.pick([]string{"Builder", "Callback", "Inner", "Entry", "Item"})))
			out = append(out, g.pick(methodNames)+"(in"+fmt.Sprintf("%d", depth)+");")
		case k == 15: // assorted expression shapes
			switch t.Pick(6) {
			case 0:
				out = append(out, "String s"+fmt.Sprintf("%d", depth)+" = \"a\" + "+g.callExpr(fi, fields, locals, need)+";")
			case 1:
				out = append(out, "Object o"+fmt.Sprintf("%d", depth)+" = true ? "+g.callExpr(fi, fields, locals, need)+" : null;")
			case 2:
				typ, imp := g.typeRefClass(fi)
				need(imp)
				out = append(out, fmt.Sprintf("%s c%d = (%s) %s;", typ, depth, typ, g.callExpr(fi, fields, locals, need)))
			case 3:
				out = append(out, "super."+g.pick(methodNames)+"();")
			case 4:
				typ, imp := g.typeRefClass(fi)
				need(imp)
				out = append(out, fmt.Sprintf("%s[] arr%d = new %s[2];", typ, depth, typ))
			default:
				out = append(out, "try {")
				out = append(out, "    "+g.callExpr(fi, fields, locals, need)+";")
				out = append(out, "} finally {")
				out = append(out, "    "+g.callExpr(fi, fields, locals, need)+";")
				out = append(out, "}")
			}
		default:
			out = append(out, g.callExpr(fi, fields, locals, need)+";")
		}
	}
	return out
}

func (g *gctx) cond(fi int, fields, locals map[string]string, need func(string)) string {
	switch g.t.Pick(3) {
	case 0:
		return g.callExpr(fi, fields, locals, need) + " != null"
	case 1:
		return "true"
	}
	return g.callExpr(fi, fields, locals, need) + " == null"
}

func indent(ls []string) []string {
	out := make([]string, len(ls))
	for i, l := range ls {
		out[i] = "    " + l
	}
	return out
}

func copyMap(m map[string]string) map[string]string {
	c := make(map[string]string, len(m))
	for k, v := range m {
		c[k] = v
	}
	return c
}
