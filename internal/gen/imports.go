package gen

import (
	"fmt"
	"strings"

	"verif/internal/tape"
)

// ImportFile is a conventional Java file whose imports have known usage (ground truth for C06).
type ImportFile struct {
	// Exempt: coca's file filters do not hand this file to the refactoring (its path contains
	// "testData", ends in Test.java / Tests.java or lies under src/test/java/): nothing is demanded
	// about its unused imports, but nothing in use may be deleted and its siblings must be cleaned
	Exempt  bool         `json:"exempt,omitempty"`
	ID      string       `json:"id"`
	Path    string       `json:"path"` // relative to the project directory
	Text    string       `json:"text"`
	Imports []ImportLine `json:"imports"`
}

type ImportLine struct {
	Line     int    `json:"line"` // 1-based
	Text     string `json:"text"`
	Simple   string `json:"simple"`
	Wildcard bool   `json:"wildcard,omitempty"`
	Static   bool   `json:"static,omitempty"`
	// Role: how the simple name is used in the file; "" = unused
	Role string `json:"role"`
}

var g_trailing = []string{" // NOSONAR", " // keep", "  /* generated */", " "}

var importPkgs = []string{"java.util", "java.io", "org.ext.model", "org.ext.svc", "com.lib", "com.lib.sub"}
var importNames = []string{"Widget", "Gadget", "Sprocket", "Lever", "Valve", "Gear", "Bolt", "Rivet", "Flange", "Piston", "Crank", "Shaft", "Pulley", "Spring", "Washer", "Gasket", "Écran", "Ωmega", "Ünit", "Ñandu"}
var roles = []string{"field", "param", "local", "generic", "annotation", "new", "static-receiver", "catch", "throws", "extends", "implements", "return",
	"static-field", "enum-constant", "method-ref", "nested-type", "static-chain", "cast", "instanceof", "array", "class-literal",
	"multi-catch", "generic-bound", "wildcard-bound", "try-resource", "ctor-ref", "annotation-arg", "array-new", "foreach-type", "lambda-body", "field-annotation", "param-annotation", "anon-lambda-new", "anon-lambda-static", "annotation-nested"}

// GenImportProject draws 1..maxFiles files in a small directory tree.
func GenImportProject(t *tape.Tape, maxFiles int) []ImportFile {
	n := t.Int(1, maxFiles)
	dirs := []string{"", "a", "a/b", "m", "z"}
	// multi-module layouts: the same package (and even the same class name) under two module roots
	modules := []string{""}
	if t.Bool(1, 3) {
		modules = []string{"mod1/src/", "mod2/src/"}
	}
	var files []ImportFile
	usedPaths := map[string]bool{}
	for i := 0; i < n; i++ {
		cls := fmt.Sprintf("%s%d", []string{"Alpha", "Beta", "Gamma", "Omega"}[t.Pick(4)], i)
		if len(modules) > 1 && t.Bool(1, 2) {
			cls = []string{"Alpha", "Beta"}[t.Pick(2)] // repeated names across modules
		}
		dir := dirs[t.Pick(len(dirs))]
		p := cls + ".java"
		if dir != "" {
			p = dir + "/" + p
		}
		exempt := false
		if t.Bool(1, 8) {
			exempt = true
			switch t.Pick(4) {
			case 0:
				cls = "LatestDataCache" // the file NAME contains the substring testData
			case 1:
				cls = cls + "Test"
			case 2:
				cls = cls + "Tests"
			default:
				dir = "src/test/java/" + []string{"a", "m"}[t.Pick(2)]
			}
			p = cls + ".java"
			if dir != "" {
				p = dir + "/" + p
			}
		}
		p = modules[t.Pick(len(modules))] + p
		if usedPaths[p] {
			continue
		}
		usedPaths[p] = true
		f := genImportFile(t, cls, strings.ReplaceAll(strings.TrimPrefix(dir, "src/test/java/"), "/", "."))
		f.ID = fmt.Sprintf("f%d", i)
		f.Path = p
		f.Exempt = exempt
		files = append(files, f)
	}
	return files
}

func genImportFile(t *tape.Tape, cls string, pkg string) ImportFile {
	defaultPkg := pkg == ""
	if pkg == "" {
		pkg = "root"
	}
	isIface := t.Bool(1, 6)
	ni := t.Int(0, 6)
	if t.Bool(1, 8) {
		ni = t.Int(7, 11) // many imports: the shifting line arithmetic is exercised harder
	}
	type imp struct {
		q, simple, role string
		wildcard, stat  bool
	}
	var imps []imp
	taken := map[string]bool{cls: true}
	hasExtends, hasImplements, hasReturn := false, false, false
	for i := 0; i < ni; i++ {
		name := importNames[t.Pick(len(importNames))]
		if taken[name] {
			continue
		}
		taken[name] = true
		q := importPkgs[t.Pick(len(importPkgs))] + "." + name
		switch k := t.Pick(10); {
		case k <= 3: // unused
			imps = append(imps, imp{q: q, simple: name})
		case k == 4: // wildcard
			imps = append(imps, imp{q: importPkgs[t.Pick(len(importPkgs))], simple: "*", wildcard: true})
		case k == 5: // static, used or unused
			m := strings.ToLower(name[:1]) + name[1:] + "Of"
			role := ""
			if t.Bool(1, 2) && !isIface {
				role = "static-call"
				if t.Bool(1, 2) {
					// a statically imported CONSTANT whose only use is a whole argument or a whole
					// statement expression (getBytes(UTF_8), sleep(5, SECONDS), throw FAILED)
					m = "MAX_" + strings.ToUpper(name)
					role = []string{"static-const-arg", "static-const-ctor-arg", "static-const-throw"}[t.Pick(3)]
				}
			}
			imps = append(imps, imp{q: "com.lib.Statics." + m, simple: m, stat: true, role: role})
		default:
			role := roles[t.Pick(len(roles))]
			if role == "extends" {
				if hasExtends || isIface {
					role = "field"
				} else {
					hasExtends = true
				}
			}
			if role == "implements" {
				if hasImplements || isIface {
					role = "param"
				} else {
					hasImplements = true
				}
			}
			if role == "return" {
				if hasReturn {
					role = "param"
				} else {
					hasReturn = true
				}
			}
			if isIface {
				switch role {
				case "field", "local", "new", "static-receiver", "catch", "static-field", "enum-constant", "method-ref", "nested-type", "static-chain", "cast", "instanceof", "array", "class-literal",
					"multi-catch", "generic-bound", "wildcard-bound", "try-resource", "ctor-ref", "annotation-arg", "array-new", "foreach-type", "lambda-body", "field-annotation", "param-annotation", "anon-lambda-new", "anon-lambda-static":
					role = "param"
				}
			}
			if role == "catch" || role == "throws" || role == "multi-catch" {
				q += "Exception"
				name += "Exception"
			}
			imps = append(imps, imp{q: q, simple: name, role: role})
		}
	}
	// order of the import lines
	perm := t.Perm(len(imps))
	var lines []string
	add := func(s string) { lines = append(lines, s) }
	if t.Bool(1, 4) {
		// a licence header: shifts every line number
		add("/*")
		nl := t.Int(1, 4)
		if t.Bool(1, 6) {
			nl = t.Int(90, 140) // a long licence text: the first import lies beyond the first 4 KiB of the file
		}
		for k := 0; k < nl; k++ {
			add(" * licence line: permission is hereby granted, free of charge")
		}
		add(" */")
	}
	if defaultPkg && t.Bool(1, 3) {
		// a class of the default package: no package declaration, the imports may start on line 1
	} else {
		add("package " + pkg + ";")
		if t.Bool(1, 2) {
			add("")
		}
	}
	var out ImportFile
	for _, pi := range perm {
		im := imps[pi]
		if t.Bool(1, 6) {
			add("")
		}
		if t.Bool(1, 10) {
			add("// tooling")
		}
		s := "import "
		if im.stat {
			s += "static "
		}
		s += im.q
		if im.wildcard {
			s += ".*"
		}
		s += ";"
		if t.Bool(1, 10) {
			s += g_trailing[t.Pick(len(g_trailing))] // something after the semicolon on the import's line
		}
		add(s)
		out.Imports = append(out.Imports, ImportLine{Line: len(lines), Text: s, Simple: im.simple, Wildcard: im.wildcard, Static: im.stat, Role: im.role})
		if t.Bool(1, 12) {
			// the same import line once more (a merge leftover): legal, and unused twice if unused once
			add(s)
			out.Imports = append(out.Imports, ImportLine{Line: len(lines), Text: s, Simple: im.simple, Wildcard: im.wildcard, Static: im.stat, Role: im.role})
		}
	}
	if t.Bool(1, 10) {
		add("// caf\u00a7LEGACY\u00a7 au lait: a comment in a legacy 8-bit encoding")
	}
	add("")
	by := func(role string) []string {
		var r []string
		for _, im := range imps {
			if im.role == role {
				r = append(r, im.simple)
			}
		}
		return r
	}
	for _, a := range by("annotation") {
		add("@" + a)
	}
	for _, a := range by("annotation-nested") {
		add("@" + a + ".Strict") // a nested annotation type of the imported type: the import is used
	}
	// a fully-qualified name elsewhere in the file whose last segment equals a used import's simple
	// name (legacy / generated code): it must not make that import look unused
	var fqnThrows []string
	for _, im := range imps {
		if im.role != "" && !im.wildcard && !im.stat && t.Bool(1, 8) {
			if t.Bool(1, 2) {
				add("@org.legacy.meta." + im.simple)
			} else {
				fqnThrows = append(fqnThrows, "org.legacy.rpc."+im.simple)
			}
		}
	}
	head := "public class " + cls
	if isIface {
		head = "public interface " + cls
	}
	if e := by("extends"); len(e) > 0 {
		head += " extends " + e[0]
	}
	if e := by("implements"); len(e) > 0 {
		head += " implements " + e[0]
	}
	add(head + " {")
	for i, f := range by("field") {
		add(fmt.Sprintf("    private %s field%d;", f, i))
	}
	for i, a := range by("field-annotation") {
		if !isIface {
			add(fmt.Sprintf("    @%s", a))
			add(fmt.Sprintf("    private String annotated%d;", i))
		}
	}
	// a field initialised with an anonymous class whose last member is a lambda-valued field with an
	// expression body: the only mention of the imported name in the file
	for i, s := range by("anon-lambda-new") {
		add(fmt.Sprintf("    private final Object registry%d = new Object() {", i))
		add(fmt.Sprintf("        java.util.function.Function<Long, Object> make = x -> new %s(x);", s))
		add("    };")
	}
	for i, s := range by("anon-lambda-static") {
		add(fmt.Sprintf("    private final Object lookup%d = new Object() {", i))
		add(fmt.Sprintf("        java.util.function.Function<String, Object> find = code -> %s.of(code);", s))
		add("    };")
	}
	for i, g := range by("wildcard-bound") {
		add(fmt.Sprintf("    private java.util.List<? extends %s> bounded%d;", g, i))
	}
	for i, g := range by("generic") {
		if isIface {
			add(fmt.Sprintf("    java.util.List<%s> list%d();", g, i))
		} else {
			add(fmt.Sprintf("    private java.util.List<%s> list%d;", g, i))
		}
	}
	add("")
	// one method carrying params / return / throws
	ret := "void"
	if r := by("return"); len(r) > 0 {
		ret = r[0]
	}
	var ps []string
	for i, p := range by("param") {
		ps = append(ps, fmt.Sprintf("%s p%d", p, i))
	}
	for i, p := range by("param-annotation") {
		ps = append(ps, fmt.Sprintf("@%s String q%d", p, i))
	}
	generics := ""
	if gb := by("generic-bound"); len(gb) > 0 {
		generics = "<T extends " + gb[0] + "> "
		for _, extra := range gb[1:] {
			ps = append(ps, extra+" extraBound")
		}
	}
	for _, a := range by("annotation-arg") {
		add(fmt.Sprintf("    @SuppressWarnings(value = %s.class)", a))
	}
	sig := "    " + generics + ret + " work(" + strings.Join(ps, ", ") + ")"
	if th := append(by("throws"), fqnThrows...); len(th) > 0 {
		sig += " throws " + strings.Join(th, ", ")
	}
	if isIface {
		add(sig + ";")
	} else {
		add("    public" + sig[3:] + " {")
		for i, l := range by("local") {
			add(fmt.Sprintf("        %s v%d = null;", l, i))
		}
		for i, nw := range by("new") {
			add(fmt.Sprintf("        Object o%d = new %s();", i, nw))
		}
		for _, s := range by("static-receiver") {
			add(fmt.Sprintf("        %s.create();", s))
		}
		if mc := by("multi-catch"); len(mc) > 0 {
			if len(mc) == 1 {
				mc = append(mc, "IllegalStateException") // a real multi-catch: the import is one alternative of several
			}
			add("        try {")
			add("            helper();")
			add("        } catch (" + strings.Join(mc, " | ") + " e) {")
			add("            helper();")
			add("        }")
		}
		for i, s := range by("try-resource") {
			add(fmt.Sprintf("        try (%s res%d = null) {", s, i))
			add("            helper();")
			add("        }")
		}
		for i, s := range by("ctor-ref") {
			add(fmt.Sprintf("        java.util.function.Supplier<Object> sup%d = %s::new;", i, s))
		}
		for i, s := range by("array-new") {
			add(fmt.Sprintf("        Object arrNew%d = new %s[3];", i, s))
		}
		for i, s := range by("foreach-type") {
			add(fmt.Sprintf("        for (%s each%d : java.util.Collections.<%s>emptyList()) {", s, i, s))
			add("            helper();")
			add("        }")
		}
		for i, s := range by("lambda-body") {
			add(fmt.Sprintf("        Runnable lam%d = () -> { %s inLambda = null; };", i, s))
		}
		for i, s := range by("static-field") {
			add(fmt.Sprintf("        int k%d = %s.MAX_SIZE;", i, s))
		}
		for i, s := range by("enum-constant") {
			add(fmt.Sprintf("        Object e%d = %s.OPEN;", i, s))
		}
		for i, s := range by("method-ref") {
			add(fmt.Sprintf("        Runnable r%d = %s::run;", i, s))
		}
		for _, s := range by("nested-type") {
			add(fmt.Sprintf("        %s.Inner.value();", s))
		}
		for i, s := range by("static-chain") {
			add(fmt.Sprintf("        long t%d = %s.SECONDS.toMillis(1);", i, s))
		}
		for i, s := range by("cast") {
			add(fmt.Sprintf("        Object c%d = (%s) null;", i, s))
		}
		for _, s := range by("instanceof") {
			add(fmt.Sprintf("        if (this instanceof %s) {", s))
			add("            helper();")
			add("        }")
		}
		for i, s := range by("array") {
			add(fmt.Sprintf("        %s[] a%d = null;", s, i))
		}
		for i, s := range by("class-literal") {
			add(fmt.Sprintf("        Object l%d = %s.class;", i, s))
		}
		for _, s := range by("static-call") {
			add(fmt.Sprintf("        %s(1);", s))
		}
		for _, s := range by("static-const-arg") {
			add(fmt.Sprintf("        \"text\".getBytes(%s);", s))
		}
		for i, s := range by("static-const-ctor-arg") {
			add(fmt.Sprintf("        Object viaCtor%d = new String(new byte[0], %s);", i, s))
		}
		for _, s := range by("static-const-throw") {
			add("        if (this == null) {")
			add(fmt.Sprintf("            throw %s;", s))
			add("        }")
		}
		for _, c := range by("catch") {
			add("        try {")
			add("            helper();")
			add("        } catch (" + c + " e) {")
			add("            helper();")
			add("        }")
		}
		if ret != "void" {
			add("        return null;")
		}
		add("    }")
		add("")
		add("    private void helper() {")
		add("    }")
	}
	add("}")
	if t.Bool(1, 100) {
		// a very large file (generated tables kept in a trailing comment): sizes beyond the usual
		// fixed buffers (64 KiB, 1 MiB)
		size := []int{70000, 1100000}[t.Pick(2)]
		add("/*")
		for n, k := 0, 0; n < size; k++ {
			l := fmt.Sprintf(" * row %07d 0123456789abcdef0123456789abcdef0123456789abcdef0123456789abcdef", k)
			add(l)
			n += len(l) + 1
		}
		add(" */")
	}
	out.Text = strings.Join(lines, "\n") + "\n"
	// byte-level variety: the frame condition speaks about bytes, so line terminators matter
	switch t.Pick(8) {
	case 0:
		out.Text = strings.TrimSuffix(out.Text, "\n") // no newline at end of file
	case 1:
		out.Text = strings.ReplaceAll(out.Text, "\n", "\r\n") // CRLF
	case 2:
		out.Text += "\n\n" // trailing blank lines
	case 4:
		// a stray carriage return that is not part of a CRLF (classic-Mac remnant, double conversion)
		// inside the first line of the file: it is no line break for anybody who counts lines by LF
		if i := strings.Index(out.Text, "\n"); i > 2 && strings.HasPrefix(out.Text, "package ") {
			out.Text = out.Text[:i] + " /* old\rheader */" + out.Text[i:]
		}
	case 3:
		// mixed line endings: a CRLF checkout with an LF-only head (pasted licence header, generated
		// package line) or single LF lines in between
		ls := strings.Split(out.Text, "\n")
		cut := t.Int(1, 4)
		every := 0
		if t.Bool(1, 3) {
			every = 2 + t.Pick(3)
		}
		for i := range ls {
			if i >= cut && i < len(ls)-1 && (every == 0 || i%every != 0) {
				ls[i] += "\r"
			}
		}
		out.Text = strings.Join(ls, "\n")
	}
	return out
}
