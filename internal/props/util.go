package props

import (
	"crypto/sha256"
	"encoding/hex"
	"encoding/json"

	"verif/internal/sim"
)

func hashJSON(v interface{}) string {
	b, _ := json.Marshal(v)
	s := sha256.Sum256(b)
	return hex.EncodeToString(s[:10])
}

// All returns the claimed properties.
func All() map[string]sim.Property {
	return map[string]sim.Property{
		"C03": C03{},
		"C04": C04{},
		"C06": C06{},
		"C07": C07{},
		"C08": C08{},
		"C12": C12{},
	}
}
