package props

import (
	"crypto/sha256"
	"encoding/hex"
	"encoding/json"
	"os"
	"path/filepath"
	"strings"
	"syscall"

	"verif/internal/sim"
)

func hashJSON(v interface{}) string {
	b, _ := json.Marshal(v)
	s := sha256.Sum256(b)
	return hex.EncodeToString(s[:10])
}

// All returns the claimed properties.
func All() map[string]sim.Property {
	return map[string]sim.Property{
		"C03": C03{},
		"C04": C04{},
		"C06": C06{},
		"C07": C07{},
		"C08": C08{},
		"C12": C12{},
	}
}

// cwdIgnoreText is the .gitignore placed in a process's working directory by the fault
// "working-directory-holds-gitignore": anchored patterns, which under git's own semantics concern
// entries of that directory only - never the package directories of a project analysed below it.
const cwdIgnoreText = "/a\n/b\n/x\n/z\n/ads\n/tools\n/src\n/p\n/com\n/org\n/javabook\n/javax\n/00\n/01\n/02\n/03\n/04\n"

// makeDeepDir creates, below dir/name, a chain of directories whose full path is longer than
// PATH_MAX (a runaway cache or a node_modules-style tree): every path-based system call on its deeper
// levels fails with ENAMETOOLONG, so a tree walk meets errors in the middle of the walk.
func makeDeepDir(dir, name string) error {
	if err := os.MkdirAll(filepath.Join(dir, name), 0755); err != nil {
		return err
	}
	fd, err := syscall.Open(filepath.Join(dir, name), syscall.O_RDONLY|syscall.O_DIRECTORY, 0)
	if err != nil {
		return err
	}
	seg := strings.Repeat("d", 200)
	for depth := 0; depth < 22; depth++ {
		if err := syscall.Mkdirat(fd, seg, 0755); err != nil && err != syscall.EEXIST {
			syscall.Close(fd)
			return err
		}
		next, err := syscall.Openat(fd, seg, syscall.O_RDONLY|syscall.O_DIRECTORY, 0)
		syscall.Close(fd)
		if err != nil {
			return err
		}
		fd = next
	}
	syscall.Close(fd)
	return nil
}

// plantTmp leaves, for each report name, a sibling <name>.tmp longer than any report: what an
// interrupted write-to-temporary-then-rename leaves behind. The unchanged tree never reads them.
func plantTmp(dir string, names []string) {
	os.MkdirAll(dir, 0755)
	junk := []byte(strings.Repeat("{\"interrupted\": true}\n", 4096))
	for _, n := range names {
		os.WriteFile(filepath.Join(dir, n+".tmp"), junk, 0644)
	}
}
