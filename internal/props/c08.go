package props

import (
	"encoding/json"
	"fmt"
	"os"
	"os/exec"
	"path/filepath"
	"regexp"
	"sort"
	"strings"
	"time"

	"verif/internal/gen"
	"verif/internal/sim"
	"verif/internal/tape"
)

type C08Scenario struct {
	Files     []SrcFile      `json:"files"` // materialised under src/
	GitLog    string         `json:"git_log"`
	GitLog2   string         `json:"git_log2"`
	GitRepo   *gen.GitRepo   `json:"git_repo,omitempty"` // a real repository for the `coca git` command line // a second history, parsed in between two parses of the first
	GoFile    string         `json:"go_file"`
	Tree      []gen.TreeFile `json:"tree"`
	Root      string         `json:"root"`
	Target    string         `json:"target"`
	Schedules []sim.Schedule `json:"schedules"` // compared with the canonical schedule
	// option variety (swarm): filters and switches the CLI accepts
	ArchFilter string `json:"arch_filter,omitempty"` // -x for arch
	BsIgnore   string `json:"bs_ignore,omitempty"`   // -x for bs
	ApiPrefix  string `json:"api_prefix,omitempty"`  // -a for api
	// TZs[i]: time zone of the processes of schedule i+1 (the canonical run uses the default zone)
	TZs []string `json:"tzs,omitempty"`
	// LowFD[i]: the processes of schedule i+1 run under a descriptor limit of 32
	LowFD []bool `json:"low_fd,omitempty"`
	// Torn[i] > 0: the working directory of schedule i+1 starts with the reports of an interrupted
	// earlier run of the same pipeline: every report cut to Torn[i] percent of its length (100: empty)
	Torn []int `json:"torn,omitempty"`
	// Deploy[i]: deployment of the processes of schedule i+1 (index into deployMenu: locale, terminal
	// width, HOME unset, NO_COLOR, umask)
	Deploy []int `json:"deploy,omitempty"`
	// Unpriv[i]: the processes of schedule i+1 run as an ordinary user owning the working directory
	Unpriv []bool `json:"unpriv,omitempty"`
	// Par[i]: the processes of schedule i+1 run with GOMAXPROCS=8
	Par []bool `json:"par,omitempty"`
	// SrcIgnore: the source tree holds a harmless .gitignore of its own (*.iml, *.log)
	SrcIgnore bool `json:"src_ignore,omitempty"`
	// CountTop+1: the row limit given to `coca count -t`
	CountTop int    `json:"count_top,omitempty"`
	Remove   string `json:"remove,omitempty"` // -r for api / call / rcall: package names to strip, possibly one a prefix of another
}

type C08 struct{}

func (C08) ID() string { return "C08" }
func (C08) Rule() string {
	return "a scenario = one generated 'everything' project (classes with overloaded methods and constructors, controllers, interfaces, JUnit tests with smells, colliding package names), a synthetic git log (several authors, renames, deletes, ties in the sort keys) and a small multi-language tree, plus K map-iteration schedules (every event shuffled / a sparse 10-50% / one site only / rotations only / reverse). The whole CLI pipeline (analysis, call, call -l, rcall, arch x3, bs x2, tbs x2, api x2, count, evaluate, concept, git summaries, cloc --by-directory; one fresh process per command, chained through coca_reporter/) runs once under the canonical schedule and once under each schedule; every report is compared after canonicalisation (collections as multisets, functions inside a type as a multiset, graphs as edge sets with node ids resolved, promised orders as key sequence + multiset per tied key). Non-trivial = at least one schedule actually permuted >=1 iteration event of >=2 keys; distinct = by content hash."
}
func (C08) Budget(tier string) (int, time.Duration) {
	if tier == "thorough" {
		return 1500, 28 * time.Minute
	}
	return 128, 5 * time.Minute
}

func (C08) Generate(t *tape.Tape, tier string) interface{} {
	thorough := tier == "thorough"
	o := gen.Options{MinFiles: 3, MaxFiles: 6, Controllers: true, Interfaces: true, Overloads: true, Lambdas: true, Anonymous: t.Bool(1, 2), BigBodies: t.Bool(1, 2), CollidingPkgs: t.Bool(2, 3), TwinNames: true, Getters: true, SamePkgConflict: t.Bool(1, 2), Services: true, ServiceMethod: true}
	if thorough {
		o.MaxFiles = 9
	}
	o.WideLine = t.Bool(1, 6)
	p := gen.GenProject(t, o)
	sc := &C08Scenario{}
	var pkgs []string
	var methods []string
	for _, f := range p.Files {
		sc.Files = append(sc.Files, SrcFile{ID: f.ID, Path: f.Path, Text: f.Text})
		pkgs = append(pkgs, f.Pkg)
		for _, m := range f.Methods {
			methods = append(methods, f.Pkg+"."+f.Name+"."+m.Name)
		}
	}
	hubTarget := ""
	if t.Bool(1, 8) {
		// a hub class with many collaborators: fan-out beyond any small threshold (counts matter, not only shapes)
		n := t.Int(31, 40)
		fanIn := t.Bool(1, 2) // every collaborator also calls one utility method: fan-in beyond small thresholds
		var hub []string
		hub = append(hub, "package hub;", "", "public class Hub {", "    public void fanOut() {")
		for k := 1; k <= n; k++ {
			hub = append(hub, fmt.Sprintf("        C%02d.run();", k))
			body := "    }"
			call := ""
			if k < n && t.Bool(1, 2) {
				call = fmt.Sprintf("        C%02d.run();\n", k+1)
			}
			if fanIn {
				call += "        Util.fmt();\n"
			}
			text := fmt.Sprintf("package hub;\n\npublic class C%02d {\n    public static void run() {\n%s%s\n}\n", k, call, body)
			sc.Files = append(sc.Files, SrcFile{ID: fmt.Sprintf("h%d", k), Path: fmt.Sprintf("hub/C%02d.java", k), Text: text})
		}
		hub = append(hub, "    }", "}")
		sc.Files = append(sc.Files, SrcFile{ID: "hub", Path: "hub/Hub.java", Text: strings.Join(hub, "\n") + "\n"})
		if fanIn {
			sc.Files = append(sc.Files, SrcFile{ID: "hutil", Path: "hub/Util.java", Text: "package hub;\n\npublic class Util {\n    public static void fmt() {\n    }\n}\n"})
			hubTarget = "hub.Util.fmt"
		}
	}
	for _, f := range gen.GenTestClasses(t, pkgs) {
		sc.Files = append(sc.Files, SrcFile{ID: f.ID, Path: f.Path, Text: f.Text})
	}
	sc.Root = "none.Such.method"
	sc.Target = "none.Such.method"
	if len(methods) > 0 {
		sc.Root = methods[t.Pick(len(methods))]
		sc.Target = methods[t.Pick(len(methods))]
		wide := ""
		for _, f := range p.Files {
			if f.Name == "WideTable" {
				wide = f.Pkg + ".WideTable."
			}
		}
		if hubTarget != "" {
			sc.Target = hubTarget
			sc.Root = "hub.Hub.fanOut"
		} else if wide != "" && t.Bool(1, 2) {
			// the overloaded methods of the one-line class: which overload the graph follows is settled by
			// the source order of the two, whatever their columns
			sc.Root = wide + []string{"a2", "a3"}[t.Pick(2)]
		} else if t.Bool(1, 5) {
			// a short form (Class.method or the bare method name) that several declared methods end in:
			// it is nobody's full name, so every run must treat it alike
			short := func(full string) string {
				parts := strings.Split(full, ".")
				n := 1 + t.Pick(2)
				if n >= len(parts) {
					n = 1
				}
				return strings.Join(parts[len(parts)-n:], ".")
			}
			sc.Root = short(sc.Root)
			sc.Target = short(sc.Target)
		}
	}
	// option variety
	var simpleNames []string
	for _, f := range p.Files {
		simpleNames = append(simpleNames, f.Name)
	}
	switch t.Pick(4) {
	case 0:
		sc.ArchFilter = simpleNames[t.Pick(len(simpleNames))]
	case 1:
		sc.ArchFilter = simpleNames[t.Pick(len(simpleNames))] + "," + simpleNames[t.Pick(len(simpleNames))]
	case 2:
		sc.ArchFilter = pkgs[t.Pick(len(pkgs))]
	default:
		sc.ArchFilter = simpleNames[t.Pick(len(simpleNames))][:2]
	}
	if t.Bool(1, 2) {
		sc.BsIgnore = []string{"dataClass", "lazyElement,longMethod", "refusedBequest", "graphConnectedCall"}[t.Pick(4)]
	}
	if t.Bool(1, 2) {
		sc.ApiPrefix = "/" + strings.ToLower(simpleNames[t.Pick(len(simpleNames))])[:1]
	}
	{
		a := pkgs[t.Pick(len(pkgs))] + "."
		b := pkgs[t.Pick(len(pkgs))] + "."
		switch t.Pick(4) {
		case 0:
			sc.Remove = a
		case 1:
			sc.Remove = a + "," + b
		case 2:
			// one name a prefix of the other, in both orders
			first := strings.SplitN(a, ".", 2)[0] + "."
			if t.Bool(1, 2) {
				sc.Remove = first + "," + a
			} else {
				sc.Remove = a + "," + first
			}
		default:
			sc.Remove = a + "," + a + ","
		}
	}
	sc.GitLog = gen.GenGitLog(t)
	sc.GitLog2 = gen.GenGitLog(t)
	if t.Bool(1, 2) {
		sc.GitRepo = gen.GenGitRepo(t)
	}
	sc.Tree = gen.GenClocTree(t)
	sc.GoFile = gen.GenGoFile(t)
	k := 4
	if thorough {
		k = 8
	}
	for i := 0; i < k; i++ {
		s := sim.Schedule{Seed: t.Seed64()}
		kind := t.Pick(8)
		if i < 2 {
			kind = 0 // at least two schedules shuffle every iteration event
		}
		switch kind {
		case 0, 1, 2:
			s.Tail = "seeded"
		case 3:
			s.Tail = "sparse"
			s.Pct = 10 + 10*t.Pick(5)
		case 4:
			s.Tail = "rotate"
		case 5:
			s.Tail = "reverse"
		default:
			s.Tail = "site"
			s.Site = "?" // resolved at run time to the (Seed mod #sites)-th rewritten site
		}
		sc.Schedules = append(sc.Schedules, s)
		sc.TZs = append(sc.TZs, []string{"", "", "Asia/Tokyo", "America/Los_Angeles", "Pacific/Kiritimati"}[t.Pick(5)])
		sc.LowFD = append(sc.LowFD, t.Bool(1, 4))
		sc.Par = append(sc.Par, t.Bool(1, 3))
		sc.Unpriv = append(sc.Unpriv, t.Bool(1, 5))
		sc.Deploy = append(sc.Deploy, t.Pick(2*len(deployMenu))) // half of the schedules: default deployment
		torn := 0
		if t.Bool(1, 4) {
			torn = 1 + t.Pick(100)
			if t.Bool(1, 3) {
				torn = 100 // cut to nothing
			}
		}
		sc.Torn = append(sc.Torn, torn)
		sc.CountTop = t.Pick(5)
		sc.SrcIgnore = t.Bool(1, 2)
	}
	return sc
}

func (C08) Components() ([]string, []string) {
	return []string{"the coca CLI (cmd package, cobra) - every listed command in a fresh simulated process", "all Java passes, call/rcall/arch/bs/tbs/api/count/evaluate/concept applications", "git log parser and summaries (API level, synthetic log text)", "gographviz, tablewriter, graphcall (with seam S1)", "boyter/scc line counter inside `cloc --by-directory` (real goroutines, GOMAXPROCS=1; only order-free sums observed)"}, []string{}
}
func (C08) Assumptions() []string {
	return []string{
		"the canonical (sorted-key) schedule is one of the permitted runs and serves as the reference; any permutation of a map iteration is a behaviour the Go specification permits",
		"scc's internal goroutine schedule is not owned by the simulator (third-party channel code)",
		"git log text is synthetic, in the newline-terminated shape git emits",
		"the code-age display in months (wall clock) is not observed; the first-commit dates are",
	}
}

// ---- canonicalisation ----

func sortedJSONList(raw []byte) (string, error) {
	var items []interface{}
	if len(raw) == 0 || strings.TrimSpace(string(raw)) == "null" {
		return "[]", nil
	}
	if err := json.Unmarshal(raw, &items); err != nil {
		return "", err
	}
	var ss []string
	for _, it := range items {
		b, _ := json.Marshal(it)
		ss = append(ss, string(b))
	}
	sort.Strings(ss)
	return strings.Join(ss, "\n"), nil
}

// canonKeyed: sequence of rows whose promised order is by key: identical order where the key is
// not tied, nothing demanded inside a tie.
func canonKeyed(keys []string, rows []string) string {
	var out []string
	i := 0
	for i < len(rows) {
		j := i
		for j < len(rows) && keys[j] == keys[i] {
			j++
		}
		grp := append([]string(nil), rows[i:j]...)
		sort.Strings(grp)
		out = append(out, grp...)
		i = j
	}
	return strings.Join(out, "\n")
}

func canonModel(raw []byte) (string, error) {
	l, err := canonList(raw)
	if err != nil {
		return "", err
	}
	return strings.Join(l, "\n"), nil
}

func canonDotEdges(text string) string {
	edges, err := ParseSimpleDot(text)
	if err != nil {
		// not this property's concern whether the DOT is well formed: compare the sorted lines
		ls := strings.Split(text, "\n")
		sort.Strings(ls)
		return "unparsed:" + strings.Join(ls, "\n")
	}
	set := map[string]bool{}
	for _, e := range edges {
		set[fmt.Sprintf("%q -> %q", e.From, e.To)] = true
	}
	var ss []string
	for s := range set {
		ss = append(ss, s)
	}
	sort.Strings(ss)
	return strings.Join(ss, "\n")
}

var (
	reSub  = regexp.MustCompile(`^\s*subgraph\s+(\S+)\s*\{`)
	reLab  = regexp.MustCompile(`^\s*label="(.*)";`)
	reNode = regexp.MustCompile(`^\s*(node\d+)\s*\[\s*label="(.*)",\s*shape=box\s*\];`)
	reEdge = regexp.MustCompile(`^\s*(node\d+)->(node\d+)\[`)
)

// canonArch resolves gographviz's nodeN/clusterN ids to label paths.
func canonArch(text string) (string, error) {
	type frame struct{ label string }
	var stack []frame
	nodes := map[string]string{}
	var edges [][2]string
	for _, line := range strings.Split(text, "\n") {
		s := strings.TrimSpace(line)
		switch {
		case s == "" || s == ";" || strings.HasPrefix(s, "digraph") || strings.HasPrefix(s, "graph"):
		case reSub.MatchString(line):
			stack = append(stack, frame{})
		case reLab.MatchString(line):
			if len(stack) > 0 {
				stack[len(stack)-1].label = reLab.FindStringSubmatch(line)[1]
			}
		case reNode.MatchString(line):
			m := reNode.FindStringSubmatch(line)
			var path []string
			for _, f := range stack {
				path = append(path, f.label)
			}
			path = append(path, m[2])
			nodes[m[1]] = strings.Join(path, "/")
		case reEdge.MatchString(line):
			m := reEdge.FindStringSubmatch(line)
			edges = append(edges, [2]string{m[1], m[2]})
		case s == "}":
			if len(stack) > 0 {
				stack = stack[:len(stack)-1]
			}
		default:
			return "", fmt.Errorf("unrecognised arch.dot line %q", line)
		}
	}
	var ns, es []string
	for _, p := range nodes {
		ns = append(ns, "node "+p)
	}
	eset := map[string]bool{}
	for _, e := range edges {
		eset["edge "+nodes[e[0]]+" -> "+nodes[e[1]]] = true
	}
	for e := range eset {
		es = append(es, e)
	}
	sort.Strings(ns)
	sort.Strings(es)
	return strings.Join(append(ns, es...), "\n"), nil
}

func canonBsSorted(raw []byte) (string, error) {
	var m map[string][]map[string]interface{}
	if err := json.Unmarshal(raw, &m); err != nil {
		return "", err
	}
	sized := map[string]bool{"largeClass": true, "repeatedSwitches": true, "longParameterList": true, "longMethod": true, "dataClass": true}
	var kinds []string
	for k := range m {
		kinds = append(kinds, k)
	}
	sort.Strings(kinds)
	var out []string
	for _, k := range kinds {
		var keys, rows []string
		for _, e := range m[k] {
			b, _ := json.Marshal(e)
			rows = append(rows, string(b))
			keys = append(keys, fmt.Sprint(e["Size"]))
		}
		out = append(out, "kind "+k)
		if sized[k] {
			out = append(out, strings.Join(keys, ","))
			out = append(out, canonKeyed(keys, rows))
		} else {
			sort.Strings(rows)
			out = append(out, rows...)
		}
	}
	return strings.Join(out, "\n"), nil
}

func canonMapOfLists(raw []byte) (string, error) {
	var m map[string][]interface{}
	if len(raw) == 0 || strings.TrimSpace(string(raw)) == "null" {
		return "{}", nil
	}
	if err := json.Unmarshal(raw, &m); err != nil {
		return "", err
	}
	var ks []string
	for k := range m {
		ks = append(ks, k)
	}
	sort.Strings(ks)
	var out []string
	for _, k := range ks {
		var vs []string
		for _, v := range m[k] {
			b, _ := json.Marshal(v)
			vs = append(vs, string(b))
		}
		sort.Strings(vs)
		out = append(out, k+": "+strings.Join(vs, " "))
	}
	return strings.Join(out, "\n"), nil
}

func canonCsv(text string, keyed bool) string {
	lines := strings.Split(strings.TrimRight(text, "\n"), "\n")
	if len(lines) <= 1 {
		return text
	}
	head, rows := lines[0], lines[1:]
	if keyed {
		var keys []string
		for _, r := range rows {
			keys = append(keys, strings.TrimSpace(strings.SplitN(r, ",", 2)[0]))
		}
		return head + "\n" + strings.Join(keys, ",") + "\n" + canonKeyed(keys, rows)
	}
	rows = append([]string(nil), rows...)
	sort.Strings(rows)
	return head + "\n" + strings.Join(rows, "\n")
}

func canonEvaluate(raw []byte) (string, error) {
	var m map[string]interface{}
	if err := json.Unmarshal(raw, &m); err != nil {
		return "", err
	}
	var sortLists func(v interface{}) interface{}
	sortLists = func(v interface{}) interface{} {
		switch x := v.(type) {
		case map[string]interface{}:
			for k, e := range x {
				x[k] = sortLists(e)
			}
			return x
		case []interface{}:
			var ss []string
			for _, e := range x {
				b, _ := json.Marshal(sortLists(e))
				ss = append(ss, string(b))
			}
			sort.Strings(ss)
			out := make([]interface{}, len(ss))
			for i := range ss {
				out[i] = json.RawMessage(ss[i])
			}
			return out
		}
		return v
	}
	// Nullable.Items and the map-valued service summaries are collections; Summary numbers verbatim
	if n, ok := m["Nullable"]; ok {
		m["Nullable"] = sortLists(n)
	}
	if n, ok := m["ServiceSummary"]; ok {
		m["ServiceSummary"] = sortLists(n)
	}
	b, _ := json.Marshal(m)
	return string(b), nil
}

// canonGoContainer: the Go front-end sorts the data structures by name; entries with the same
// name are a tie (nothing demanded about their order), everything else verbatim.
func canonGoContainer(raw []byte) (string, error) {
	var m map[string]json.RawMessage
	if err := json.Unmarshal(raw, &m); err != nil {
		return "", err
	}
	var ds []map[string]interface{}
	if d, ok := m["DataStructures"]; ok && string(d) != "null" {
		if err := json.Unmarshal(d, &ds); err != nil {
			return "", err
		}
	}
	var keys, rows []string
	for _, d := range ds {
		b, _ := json.Marshal(d)
		keys = append(keys, fmt.Sprint(d["NodeName"]))
		rows = append(rows, string(b))
	}
	delete(m, "DataStructures")
	rest, _ := json.Marshal(m)
	return string(rest) + "\nDataStructures by name: " + strings.Join(keys, ",") + "\n" + canonKeyed(keys, rows), nil
}

// canonTableKeyed: rows of a tablewriter table whose promised order is by column keyCol (ties free).
func canonTableKeyed(text string, keyCol int) string {
	var keys, rows []string
	first := true
	for _, l := range strings.Split(text, "\n") {
		if !strings.HasPrefix(l, "|") {
			continue
		}
		if first {
			first = false // header
			continue
		}
		cells := strings.Split(strings.Trim(l, "|"), "|")
		k := ""
		if keyCol < len(cells) {
			k = strings.TrimSpace(cells[keyCol])
		}
		keys = append(keys, k)
		rows = append(rows, strings.Join(strings.Fields(l), " "))
	}
	return strings.Join(keys, ",") + "\n" + canonKeyed(keys, rows)
}

// canonTop: a table cut to its first rows by a sort on column keyCol: the rows whose key differs
// from the last row's key are determined (order free inside ties); of the rows that tie with the
// last one only their number is, because the cut may fall inside the tie.
func canonTop(text string, keyCol int) string {
	var keys, rows []string
	first := true
	for _, l := range strings.Split(text, "\n") {
		if !strings.HasPrefix(l, "|") || strings.Trim(l, "|-+ ") == "" {
			continue // not a table line, or a rule line (its width follows the widest cell)
		}
		if first {
			first = false // header
			continue
		}
		cells := strings.Split(strings.Trim(l, "|"), "|")
		k := ""
		if keyCol < len(cells) {
			k = strings.TrimSpace(cells[keyCol])
		}
		keys = append(keys, k)
		rows = append(rows, strings.Join(strings.Fields(l), " "))
	}
	if len(rows) == 0 {
		return "no rows"
	}
	last := keys[len(keys)-1]
	cut := len(rows)
	for cut > 0 && keys[cut-1] == last {
		cut--
	}
	return strings.Join(keys, ",") + "\n" + canonKeyed(keys[:cut], rows[:cut]) + fmt.Sprintf("\n%d rows with key %s", len(rows)-cut, last)
}

func canonCommitsJSON(text string) string {
	var cs []struct {
		Rev, Author, Date, Message string
		Changes                    []map[string]interface{}
	}
	if json.Unmarshal([]byte(text), &cs) != nil {
		return "raw:" + text
	}
	var out []string
	for _, c := range cs {
		var ch []string
		for _, x := range c.Changes {
			b, _ := json.Marshal(x)
			ch = append(ch, string(b))
		}
		sort.Strings(ch)
		out = append(out, fmt.Sprintf("%s|%s|%s|%s|%s", c.Rev, c.Author, c.Date, c.Message, strings.Join(ch, ",")))
	}
	return strings.Join(out, "\n")
}

// buildGitRepo creates a real repository with the git binary, deterministically (fixed dates, names, content).
func buildGitRepo(dir string, r *gen.GitRepo) error {
	if err := os.MkdirAll(dir, 0755); err != nil {
		return err
	}
	git := func(env []string, args ...string) error {
		cmd := exec.Command("git", args...)
		cmd.Dir = dir
		cmd.Env = append(os.Environ(), "GIT_CONFIG_NOSYSTEM=1", "HOME="+dir, "GIT_TERMINAL_PROMPT=0")
		cmd.Env = append(cmd.Env, env...)
		if b, err := cmd.CombinedOutput(); err != nil {
			return fmt.Errorf("git %v: %v: %s", args, err, b)
		}
		return nil
	}
	if err := git(nil, "init", "-q", "."); err != nil {
		return err
	}
	git(nil, "config", "core.ignorecase", "false")
	git(nil, "config", "commit.gpgsign", "false")
	for _, c := range r.Commits {
		for _, op := range c.Ops {
			p := filepath.Join(dir, filepath.FromSlash(op.Path))
			switch op.Kind {
			case "write":
				os.MkdirAll(filepath.Dir(p), 0755)
				var b strings.Builder
				for i := 0; i < op.Size; i++ {
					fmt.Fprintf(&b, "line %d of %s\n", i, op.Path)
				}
				os.WriteFile(p, []byte(b.String()), 0644)
			case "delete":
				os.Remove(p)
			case "rename":
				to := filepath.Join(dir, filepath.FromSlash(op.To))
				os.MkdirAll(filepath.Dir(to), 0755)
				os.Rename(p, to)
			}
		}
		if err := git(nil, "add", "-A"); err != nil {
			return err
		}
		email := strings.ToLower(strings.ReplaceAll(c.Author, " ", ".")) + "@example.org"
		env := []string{"GIT_AUTHOR_NAME=" + c.Author, "GIT_AUTHOR_EMAIL=" + email, "GIT_COMMITTER_NAME=" + c.Author, "GIT_COMMITTER_EMAIL=" + email, "GIT_AUTHOR_DATE=" + c.Date, "GIT_COMMITTER_DATE=" + c.Date}
		if err := git(env, "commit", "-q", "--allow-empty", "-m", c.Msg); err != nil {
			return err
		}
	}
	// the checkout's case handling is a property of the clone (macOS / Windows), not of the history
	git(nil, "config", "core.ignorecase", fmt.Sprint(r.IgnoreCase))
	return nil
}

// canonVisual: nodes and links of the visual graph as sets (ids resolved to names).
func canonVisual(raw []byte) (string, error) {
	var v map[string][]map[string]interface{}
	if err := json.Unmarshal(raw, &v); err != nil {
		return "", err
	}
	var out []string
	var ks []string
	for k := range v {
		ks = append(ks, k)
	}
	sort.Strings(ks)
	for _, k := range ks {
		var rows []string
		for _, e := range v[k] {
			b, _ := json.Marshal(e)
			rows = append(rows, string(b))
		}
		sort.Strings(rows)
		out = append(out, k+":")
		out = append(out, rows...)
	}
	return strings.Join(out, "\n"), nil
}

func canonGit(raw []byte) (map[string]string, error) {
	var g struct {
		Commits []struct {
			Rev, Author, Date, Message string
			Changes                    []map[string]interface{}
		} `json:"commits"`
		Team []struct {
			EntityName  string
			AuthorCount int
			RevsCount   int
		} `json:"team"`
		Age []struct{ EntityName, Age string } `json:"age"`
		Top []struct {
			Name        string
			CommitCount int
			LineCount   int
		} `json:"top"`
		Basic     json.RawMessage `json:"basic"`
		ChangeMap json.RawMessage `json:"changemap"`
		Changelog string          `json:"changelog"`
	}
	if err := json.Unmarshal(raw, &g); err != nil {
		return nil, err
	}
	out := map[string]string{}
	var cs []string
	for _, c := range g.Commits {
		var ch []string
		for _, x := range c.Changes {
			b, _ := json.Marshal(x)
			ch = append(ch, string(b))
		}
		sort.Strings(ch)
		cs = append(cs, fmt.Sprintf("%s|%s|%s|%s|%s", c.Rev, c.Author, c.Date, c.Message, strings.Join(ch, ",")))
	}
	out["git.commits"] = strings.Join(cs, "\n")
	var keys, rows []string
	for _, r := range g.Team {
		keys = append(keys, fmt.Sprint(r.RevsCount))
		rows = append(rows, fmt.Sprintf("%s revs=%d authors=%d", r.EntityName, r.RevsCount, r.AuthorCount))
	}
	out["git.team"] = strings.Join(keys, ",") + "\n" + canonKeyed(keys, rows)
	keys, rows = nil, nil
	for _, r := range g.Age {
		keys = append(keys, r.Age)
		rows = append(rows, r.EntityName+" "+r.Age)
	}
	out["git.age"] = strings.Join(keys, ",") + "\n" + canonKeyed(keys, rows)
	keys, rows = nil, nil
	for _, r := range g.Top {
		keys = append(keys, fmt.Sprint(r.CommitCount))
		rows = append(rows, fmt.Sprintf("%s commits=%d lines=%d", r.Name, r.CommitCount, r.LineCount))
	}
	out["git.top-authors"] = strings.Join(keys, ",") + "\n" + canonKeyed(keys, rows)
	out["git.basic"] = string(g.Basic)
	out["git.changemap"] = string(g.ChangeMap)
	secs := strings.Split(g.Changelog, "=====================\n")
	sort.Strings(secs)
	out["git.changelog"] = strings.Join(secs, "=====================\n")
	return out, nil
}

// ---- execution ----

// deployMenu: deployments whose differences no report may show.
var deployMenu = []struct {
	name  string
	env   []string
	umask string
}{
	{"turkish-locale", []string{"LANG=tr_TR.UTF-8", "LC_ALL=tr_TR.UTF-8"}, ""},
	{"c-locale", []string{"LANG=C", "LC_ALL=C"}, ""},
	{"narrow-dumb-terminal", []string{"COLUMNS=20", "LINES=5", "TERM=dumb"}, ""},
	{"no-home", []string{"HOME=", "USER=", "XDG_CONFIG_HOME="}, ""},
	{"no-color-ci", []string{"NO_COLOR=1", "CI=true", "TERM=xterm-256color", "FORCE_COLOR=1"}, ""},
	{"umask-077", nil, "077"},
	{"umask-000", nil, "000"},
	// HOME is a directory whose .config/git/ignore (the user's global excludes file) names the top-level
	// package directories; the variable values are filled in per scenario
	{"home-with-global-git-excludes", []string{"HOME=", "XDG_CONFIG_HOME="}, ""},
}

type c08cmd struct {
	name  string   // artefact prefix
	args  []string // CLI args
	files []string // files under coca_reporter to collect afterwards
}

func (C08) Run(ctx *sim.RunCtx, data json.RawMessage) (*sim.Outcome, error) {
	var sc C08Scenario
	if err := json.Unmarshal(data, &sc); err != nil {
		return nil, sim.Harness("scenario: %v", err)
	}
	out := &sim.Outcome{Faults: map[string]int{}, Probes: map[string]int{}}
	out.ContentHash = hashJSON(sc)
	cmds := []c08cmd{
		{"analysis", []string{"analysis", "-p", "src"}, []string{"deps.json", "identify.json"}},
		// second analysis with the stored identifier set ("use local identify"): the full pass then
		// resolves project types through the identifier map; the reports below use this model
		{"analysis-local", []string{"analysis", "-p", "src", "-i=false"}, []string{"deps.json"}},
		{"call", []string{"call", "-c", sc.Root}, []string{"call.dot"}},
		{"call-lookup", []string{"call", "-c", sc.Root, "-l"}, []string{"call.dot"}},
		{"rcall", []string{"rcall", "-c", sc.Target}, []string{"rcall.dot", "rcallmap.json"}},
		{"arch", []string{"arch"}, []string{"arch.dot"}},
		{"arch-H", []string{"arch", "-H"}, []string{"arch.dot"}},
		{"arch-P", []string{"arch", "-P"}, []string{"arch.dot"}},
		{"arch-x", []string{"arch", "-x", sc.ArchFilter}, []string{"arch.dot"}},
		{"arch-H-x", []string{"arch", "-H", "-x", sc.ArchFilter}, []string{"arch.dot"}},
		{"arch-P-x", []string{"arch", "-P", "-x", sc.ArchFilter}, []string{"arch.dot"}},
		{"arch-v", []string{"arch", "-v"}, []string{"visual.json"}},
		{"bs", []string{"bs", "-p", "src"}, []string{"bs.json"}},
		{"bs-sort", []string{"bs", "-p", "src", "-s", "type"}, []string{"bs.json"}},
		{"bs-ignore", []string{"bs", "-p", "src", "-x", sc.BsIgnore}, []string{"bs.json"}},
		{"tbs", []string{"tbs", "-p", "src"}, []string{"tbs.json"}},
		{"tbs-sort", []string{"tbs", "-p", "src", "-s"}, []string{"tbs.json"}},
		{"api", []string{"api", "-p", "src", "-f"}, []string{"apis.json", "api.dot", "api.csv"}},
		{"api-sort", []string{"api", "-p", "src", "-f", "-s", "-c"}, []string{"api.csv"}},
		{"api-aggregate", []string{"api", "-p", "src", "-f", "-a", sc.ApiPrefix}, []string{"api.dot", "api.csv"}},
		// without -f: the list is taken from the apis.json the previous command left behind
		{"api-cached", []string{"api", "-p", "src", "-c"}, []string{"api.csv"}},
		{"api-remove", []string{"api", "-p", "src", "-f", "-c", "-r", sc.Remove}, []string{"api.dot", "api.csv"}},
		{"call-remove", []string{"call", "-c", sc.Root, "-r", strings.Split(sc.Remove, ",")[0]}, []string{"call.dot"}},
		{"rcall-remove", []string{"rcall", "-c", sc.Target, "-r", strings.Split(sc.Remove, ",")[0]}, []string{"rcall.dot"}},
		{"count", []string{"count"}, nil},
		{"count-top", []string{"count", "-t", fmt.Sprint(1 + sc.CountTop)}, nil},
		{"evaluate", []string{"evaluate"}, []string{"evaluate.json"}},
		{"concept", []string{"concept"}, nil},
		{"cloc", []string{"cloc", "tree", "--by-directory"}, []string{"cloc.csv"}},
	}
	repoDir := ""
	if sc.GitRepo != nil {
		repoDir = filepath.Join(ctx.Dir, "gitrepo")
		if err := buildGitRepo(repoDir, sc.GitRepo); err != nil {
			// the git binary is part of the environment, not of coca: without it this part is skipped
			out.Probes["git-repo-not-built"]++
			repoDir = ""
		}
	}
	scheds := append([]sim.Schedule{sim.Canonical()}, sc.Schedules...)
	var reference map[string]string
	seen := map[string]bool{}
	add := func(class, detail string, sig map[string]string) {
		if seen[class] {
			return
		}
		seen[class] = true
		out.Violations = append(out.Violations, sim.Violation{Class: "C08/" + class, Detail: detail, Sig: sig})
	}
	permutedSchedules := 0
	for si, s := range scheds {
		if s.Tail == "site" && len(ctx.Env.Sites) > 0 {
			site := ctx.Env.Sites[int(s.Seed%uint64(len(ctx.Env.Sites)))]
			s.Site = strings.TrimPrefix(site, "dep:")
		}
		var denv []string
		dumask := ""
		if si > 0 && si-1 < len(sc.Deploy) && sc.Deploy[si-1] < len(deployMenu) {
			d := deployMenu[sc.Deploy[si-1]]
			denv, dumask = d.env, d.umask
			if d.name == "home-with-global-git-excludes" {
				home := filepath.Join(ctx.Dir, "home-excl")
				os.MkdirAll(filepath.Join(home, ".config", "git"), 0755)
				excl := "out/\nbin/\ntarget/\na/\nb/\nx/\nz/\nads/\ntools/\np/\npq/\nqr/\nr/\nhub/\njavabook/\njavax/\n"
				os.WriteFile(filepath.Join(home, ".config", "git", "ignore"), []byte(excl), 0644)
				os.WriteFile(filepath.Join(home, ".gitignore"), []byte(excl), 0644)
				os.WriteFile(filepath.Join(home, ".gitignore_global"), []byte(excl), 0644)
				os.WriteFile(filepath.Join(home, ".gitconfig"), []byte("[core]\n\texcludesfile = ~/.gitignore_global\n"), 0644)
				denv = []string{"HOME=" + home, "XDG_CONFIG_HOME=" + filepath.Join(home, ".config")}
			}
			out.Faults["deployment-differs:"+d.name]++
		}
		unpriv := si > 0 && si-1 < len(sc.Unpriv) && sc.Unpriv[si-1]
		if unpriv {
			out.Faults["unprivileged-user"]++
		}
		par := si > 0 && si-1 < len(sc.Par) && sc.Par[si-1]
		if par {
			out.Faults["real-parallelism"]++
		}
		maxFD := 0
		if si > 0 && si-1 < len(sc.LowFD) && sc.LowFD[si-1] {
			maxFD = 32
			out.Faults["descriptor-limit-32"]++
		}
		tz := ""
		if si > 0 && si-1 < len(sc.TZs) {
			tz = sc.TZs[si-1]
			if tz != "" {
				out.Faults["time-zone-differs"]++
			}
		}
		w := filepath.Join(ctx.Dir, fmt.Sprintf("w%d", si))
		for _, f := range sc.Files {
			p := filepath.Join(w, "src", filepath.FromSlash(f.Path))
			os.MkdirAll(filepath.Dir(p), 0755)
			if err := os.WriteFile(p, []byte(materialiseLegacy(f.Text)), 0644); err != nil {
				return nil, sim.Harness("%v", err)
			}
		}
		if sc.SrcIgnore {
			os.WriteFile(filepath.Join(w, "src", ".gitignore"), []byte("*.iml\n*.log\n"), 0644)
		}
		for _, f := range sc.Tree {
			p := filepath.Join(w, "tree", filepath.FromSlash(f.Path))
			os.MkdirAll(filepath.Dir(p), 0755)
			if err := os.WriteFile(p, []byte(materialiseLegacy(f.Text)), 0644); err != nil {
				return nil, sim.Harness("%v", err)
			}
		}
		if si > 0 && si-1 < len(sc.Torn) && sc.Torn[si-1] > 0 {
			// what an interrupted earlier run left in this directory: the canonical run's reports, torn
			w0 := filepath.Join(ctx.Dir, "w0", "coca_reporter")
			if ents, err := os.ReadDir(w0); err == nil {
				os.MkdirAll(filepath.Join(w, "coca_reporter"), 0755)
				for _, e := range ents {
					if b, err := os.ReadFile(filepath.Join(w0, e.Name())); err == nil && !e.IsDir() {
						os.WriteFile(filepath.Join(w, "coca_reporter", e.Name()), b[:len(b)*(sc.Torn[si-1]%100)/100], 0644)
					}
				}
				var names []string
				for _, e := range ents {
					names = append(names, e.Name())
				}
				plantTmp(filepath.Join(w, "coca_reporter"), names)
				out.Faults["reports-torn-by-interrupted-run"]++
			}
		}
		gitLog := filepath.Join(w, "gitlog.txt")
		os.WriteFile(gitLog, []byte(sc.GitLog), 0644)
		arte := map[string]string{}
		nonCanon := 0
		fail := func(name string, err error) error {
			return sim.Harness("schedule %d: cannot canonicalise %s: %v", si, name, err)
		}
		for _, c := range cmds {
			saved := ctx.ProcTimeout
			ctx.ProcTimeout = 60 * time.Second
			cfd, cpar := maxFD, par
			if c.name == "cloc" {
				// the line counter (boyter/scc) runs a pool of reader goroutines sized by the machine: the
				// resource faults aimed at coca's own code are not applied to it
				cfd, cpar = 0, false
			}
			res, err := ctx.Run(&sim.Proc{Schedule: s, Cwd: w, TZ: tz, MaxOpenFiles: cfd, Parallel: cpar, Unprivileged: unpriv, Env: denv, Umask: dumask, Ops: []sim.Op{{Op: "cli", Args: map[string]interface{}{"args": c.args}}}})
			ctx.ProcTimeout = saved
			if err != nil {
				return nil, err
			}
			nonCanon += res.NonCanon
			out.ScheduleHashes = append(out.ScheduleHashes, res.EventHash)
			if !res.Completed(0) {
				arte[c.name+".outcome"] = "process ended: " + res.Ended
				continue
			}
			rec := res.Records[0]
			if !rec.OK {
				arte[c.name+".outcome"] = "panic: " + rec.Panic
				continue
			}
			arte[c.name+".outcome"] = "ok"
			var r struct {
				Output string `json:"output"`
			}
			json.Unmarshal(rec.Result, &r)
			for _, fn := range c.files {
				b, err := os.ReadFile(filepath.Join(w, "coca_reporter", fn))
				if err != nil {
					arte[c.name+"."+fn] = "missing"
					continue
				}
				key := c.name + "." + fn
				var cv string
				var cerr error
				switch {
				case fn == "deps.json" || fn == "identify.json":
					cv, cerr = canonModel(b)
				case fn == "call.dot" || fn == "rcall.dot" || fn == "api.dot":
					cv = canonDotEdges(string(b))
				case fn == "rcallmap.json":
					cv, cerr = canonMapOfLists(b)
				case fn == "arch.dot":
					cv, cerr = canonArch(string(b))
				case fn == "bs.json" && c.name == "bs-sort":
					cv, cerr = canonBsSorted(b)
				case fn == "tbs.json" && c.name == "tbs-sort":
					cv, cerr = canonMapOfLists(b)
				case fn == "bs.json" || fn == "tbs.json" || fn == "apis.json":
					cv, cerr = sortedJSONList(b)
				case fn == "visual.json":
					cv, cerr = canonVisual(b)
				case fn == "api.csv":
					cv = canonCsv(string(b), c.name == "api-sort")
				case fn == "cloc.csv":
					cv = canonCsv(string(b), false)
				case fn == "evaluate.json":
					cv, cerr = canonEvaluate(b)
				default:
					cv = string(b)
				}
				if cerr != nil {
					if fn == "arch.dot" {
						return nil, fail(key, cerr)
					}
					// not parseable as the expected shape (e.g. evaluate.json is empty when a
					// standard deviation is NaN): compare the raw bytes
					cv = "raw:" + string(b)
					out.Probes["raw-compared:"+fn]++
				}
				arte[key] = cv
			}
			switch c.name {
			case "count-top":
				arte[c.name+".table"] = canonTop(r.Output, 0)
			case "count", "concept", "evaluate":
				arte[c.name+".table"] = r.Output
			case "api-remove":
				// the -c table: rows as a multiset (same rows as api.csv, other layout)
				ls := strings.Split(r.Output, "\n")
				sort.Strings(ls)
				arte[c.name+".table"] = strings.Join(ls, "\n")
			}
		}
		// the same `coca api -p src -c` in a directory without history (same model, no apis.json):
		// fixed tree and arguments, so the same rows as the run above that followed `api -a`
		if si == 0 && arte["api-cached.outcome"] == "ok" {
			wc := filepath.Join(ctx.Dir, "wcold")
			os.MkdirAll(filepath.Join(wc, "coca_reporter"), 0755)
			for _, f := range sc.Files {
				p := filepath.Join(wc, "src", filepath.FromSlash(f.Path))
				os.MkdirAll(filepath.Dir(p), 0755)
				os.WriteFile(p, []byte(materialiseLegacy(f.Text)), 0644)
			}
			for _, fn := range []string{"deps.json", "identify.json"} {
				if b, err := os.ReadFile(filepath.Join(w, "coca_reporter", fn)); err == nil {
					os.WriteFile(filepath.Join(wc, "coca_reporter", fn), b, 0644)
				}
			}
			resc, err := ctx.Run(&sim.Proc{Schedule: s, Cwd: wc, Ops: []sim.Op{{Op: "cli", Args: map[string]interface{}{"args": []string{"api", "-p", "src", "-c"}}}}})
			if err != nil {
				return nil, err
			}
			if resc.Completed(0) && resc.Records[0].OK {
				if b, err := os.ReadFile(filepath.Join(wc, "coca_reporter", "api.csv")); err == nil {
					out.Faults["durable-reports-carried-over"]++
					if cold := canonCsv(string(b), false); cold != arte["api-cached.api.csv"] {
						add("history/api-after-aggregate-differs-from-fresh-directory", fmt.Sprintf("`coca api -p src -c` after `coca api -f -a %s` in the same working directory lists other rows than in a fresh directory\n with history: %s\n fresh:        %s", sc.ApiPrefix, clip(arte["api-cached.api.csv"], 600), clip(cold, 600)), map[string]string{"clause": "api-history"})
					}
				}
			}
		}
		// `coca git` in a real repository (one process per report)
		if repoDir != "" {
			os.RemoveAll(filepath.Join(repoDir, "coca_reporter"))
			for _, gc := range [][2]string{{"git-basic", "-b"}, {"git-team", "-t"}, {"git-top", "-o"}, {"git-summary", "-m"}, {"git-team-cut", "-t -f -s 3"}, {"git-top-cut", "-o -f -s 2"}} {
				resg, err := ctx.Run(&sim.Proc{Schedule: s, Cwd: repoDir, TZ: tz, MaxOpenFiles: maxFD, Parallel: par, Unprivileged: unpriv, Env: denv, Umask: dumask, Ops: []sim.Op{{Op: "cli", Args: map[string]interface{}{"args": append([]string{"git"}, strings.Fields(gc[1])...), "read": []string{"coca_reporter/commits.json"}}}}})
				if err != nil {
					return nil, err
				}
				nonCanon += resg.NonCanon
				if !resg.Completed(0) || !resg.Records[0].OK {
					arte[gc[0]+".outcome"] = "failed: " + resg.Ended
					continue
				}
				var r struct {
					Output string            `json:"output"`
					Files  map[string]string `json:"files"`
				}
				json.Unmarshal(resg.Records[0].Result, &r)
				switch gc[0] {
				case "git-basic":
					arte[gc[0]+".table"] = r.Output
					arte["git-cli.commits.json"] = canonCommitsJSON(r.Files["coca_reporter/commits.json"])
				case "git-team", "git-top":
					arte[gc[0]+".table"] = canonTableKeyed(r.Output, 1)
				case "git-team-cut", "git-top-cut":
					arte[gc[0]+".table"] = canonTop(r.Output, 1)
				default:
					secs := strings.Split(r.Output, "=====================\n")
					sort.Strings(secs)
					arte[gc[0]+".text"] = strings.Join(secs, "=====================\n")
				}
			}
		}
		// library-style analysis: identifier pass, then the full pass with the project-wide identifier set
		{
			res, err := ctx.Run(&sim.Proc{Schedule: s, Cwd: w, TZ: tz, MaxOpenFiles: maxFD, Parallel: par, Unprivileged: unpriv, Env: denv, Umask: dumask, Ops: []sim.Op{{Op: "identDir", Args: map[string]interface{}{"dir": "src"}}}})
			if err != nil {
				return nil, err
			}
			nonCanon += res.NonCanon
			if res.Completed(0) && res.Records[0].OK {
				identFile := filepath.Join(w, "lib-ident.json")
				os.WriteFile(identFile, res.Records[0].Result, 0644)
				res2, err := ctx.Run(&sim.Proc{Schedule: s, Cwd: w, TZ: tz, MaxOpenFiles: maxFD, Parallel: par, Unprivileged: unpriv, Env: denv, Umask: dumask, Ops: []sim.Op{{Op: "fullDir", Args: map[string]interface{}{"dir": "src", "ident": identFile}}}})
				if err != nil {
					return nil, err
				}
				nonCanon += res2.NonCanon
				if res2.Completed(0) && res2.Records[0].OK {
					cv, cerr := canonModel(res2.Records[0].Result)
					if cerr != nil {
						return nil, fail("lib.full", cerr)
					}
					arte["lib.full-model"] = cv
				} else {
					arte["lib.full-model"] = "failed"
				}
			} else {
				arte["lib.full-model"] = "ident failed"
			}
		}
		// Go front-end (API level): data structures are collected through a map and sorted afterwards
		if sc.GoFile != "" {
			goPath := filepath.Join(w, "demo.go")
			os.WriteFile(goPath, []byte(sc.GoFile), 0644)
			resg, err := ctx.Run(&sim.Proc{Schedule: s, Cwd: w, TZ: tz, MaxOpenFiles: maxFD, Parallel: par, Unprivileged: unpriv, Env: denv, Umask: dumask, Ops: []sim.Op{{Op: "goIdent", Args: map[string]interface{}{"file": "demo.go"}}}})
			if err != nil {
				return nil, err
			}
			nonCanon += resg.NonCanon
			if resg.Completed(0) && resg.Records[0].OK {
				cv, cerr := canonGoContainer(resg.Records[0].Result)
				if cerr != nil {
					return nil, fail("go.container", cerr)
				}
				arte["go.container"] = cv
			} else {
				arte["go.container"] = "failed"
			}
		}
		// git reports (API level): the history is parsed, then another one, then the first again - in
		// one process; "the same input gives the same output on every run" also holds for the third parse
		gitLog2 := filepath.Join(w, "gitlog2.txt")
		os.WriteFile(gitLog2, []byte(sc.GitLog2), 0644)
		res, err := ctx.Run(&sim.Proc{Schedule: s, Cwd: w, TZ: tz, MaxOpenFiles: maxFD, Parallel: par, Unprivileged: unpriv, Env: denv, Umask: dumask, Ops: []sim.Op{{Op: "git", Args: map[string]interface{}{"logs": []string{gitLog, gitLog2, gitLog}}}}})
		if err != nil {
			return nil, err
		}
		nonCanon += res.NonCanon
		if res.Completed(0) && res.Records[0].OK {
			var parts []json.RawMessage
			if err := json.Unmarshal(res.Records[0].Result, &parts); err != nil || len(parts) != 3 {
				return nil, fail("git", fmt.Errorf("expected three results"))
			}
			g, err := canonGit(parts[0])
			if err != nil {
				return nil, fail("git", err)
			}
			for k, v := range g {
				arte[k] = v
			}
			g3, err := canonGit(parts[2])
			if err != nil {
				return nil, fail("git", err)
			}
			for k, v := range g3 {
				if v != g[k] {
					add("git-reparse-differs/"+k, fmt.Sprintf("schedule %d: %s of the same log differs between the first and the third parse in one process (another log was parsed in between):\n--- first\n%s\n--- third\n%s", si, k, clipDiff(g[k], v), clipDiff(v, g[k])), map[string]string{"report": k})
				}
			}
		} else {
			arte["git.outcome"] = "failed"
		}
		if si == 0 {
			reference = arte
			continue
		}
		if nonCanon > 0 {
			permutedSchedules++
			out.Faults["map-perm"] += nonCanon
		}
		var keys []string
		for k := range reference {
			keys = append(keys, k)
		}
		for k := range arte {
			if _, ok := reference[k]; !ok {
				keys = append(keys, k)
			}
		}
		sort.Strings(keys)
		for _, k := range keys {
			if arte[k] != reference[k] {
				add("report-differs/"+k, fmt.Sprintf("report %s differs between the canonical schedule and schedule %d (%s seed=%d pct=%d site=%s):\n--- canonical\n%s\n--- schedule %d\n%s",
					k, si, s.Tail, s.Seed, s.Pct, s.Site, clipDiff(reference[k], arte[k]), si, clipDiff(arte[k], reference[k])),
					map[string]string{"report": k})
			}
		}
	}
	out.HistoryHash = hashJSON(len(sc.Files))
	out.NonTrivial = permutedSchedules > 0
	var names []string
	for _, f := range sc.Files {
		names = append(names, f.Path)
	}
	out.Sample = map[string]interface{}{"files": names, "root": sc.Root, "target": sc.Target, "schedules": sc.Schedules, "git_log": clip(sc.GitLog, 600), "tree": len(sc.Tree)}
	return out, nil
}

// clipDiff shows the lines of a that are not in b (at most 12).
func clipDiff(a, b string) string {
	if !strings.Contains(a, "\n") || !strings.Contains(b, "\n") {
		// single-line artefacts: a window around the first differing byte
		i := 0
		for i < len(a) && i < len(b) && a[i] == b[i] {
			i++
		}
		lo, hi := i-160, i+240
		if lo < 0 {
			lo = 0
		}
		if hi > len(a) {
			hi = len(a)
		}
		return fmt.Sprintf("(first difference at byte %d) ...%s...", i, a[lo:hi])
	}
	bl := map[string]bool{}
	for _, l := range strings.Split(b, "\n") {
		bl[l] = true
	}
	var out []string
	for _, l := range strings.Split(a, "\n") {
		if !bl[l] {
			out = append(out, clip(l, 400))
			if len(out) >= 12 {
				break
			}
		}
	}
	if len(out) == 0 {
		return "(same lines, different order)\n" + clip(a, 800)
	}
	return strings.Join(out, "\n")
}

// Refine pins a schedule-dependent difference to one map-range site: the failing schedule is
// replaced by "shuffle only the iterations at site S" for each rewritten site in turn.
func (C08) Refine(env *sim.Env, data json.RawMessage, class string, stillFails func(json.RawMessage) bool) (json.RawMessage, []string) {
	var sc C08Scenario
	if json.Unmarshal(data, &sc) != nil || len(sc.Schedules) == 0 {
		return nil, nil
	}
	var notes []string
	// 1. one schedule is enough
	for _, s := range sc.Schedules {
		c := sc
		c.Schedules = []sim.Schedule{s}
		b, _ := json.Marshal(c)
		if stillFails(b) {
			sc = c
			data = b
			break
		}
	}
	if len(sc.Schedules) != 1 {
		return data, notes
	}
	seed := sc.Schedules[0].Seed
	// 2. which single site reproduces it?
	for i, site := range env.Sites {
		c := sc
		// the "site" tail resolves its site as Sites[Seed mod len(Sites)]: choose a seed congruent to i
		n := uint64(len(env.Sites))
		for _, code := range []int{1, 0} { // reverse order at the site, then a seeded shuffle
			c.Schedules = []sim.Schedule{{Tail: "site", Site: "?", Seed: seed - seed%n + uint64(i), SiteCode: code}}
			b, _ := json.Marshal(c)
			if stillFails(b) {
				notes = append(notes, "culprit: permuting only the iterations at "+site+" reproduces the difference")
				return b, notes
			}
		}
	}
	notes = append(notes, "no single site reproduces the difference: it needs the interplay of several map iterations")
	return data, notes
}
