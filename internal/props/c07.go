package props

import (
	"encoding/json"
	"fmt"
	"os"
	"path/filepath"
	"sort"
	"strings"
	"time"

	"verif/internal/gen"
	"verif/internal/sim"
	"verif/internal/tape"
)

// FixtureDir is <repo>/_fixtures (set by the driver); its .java files are a second workload source.
var FixtureDir string

type SrcFile struct {
	ID   string `json:"id"`
	Path string `json:"path"`
	Text string `json:"text"`
}

type C07Op struct {
	Pass   string `json:"pass"`            // ident | full | bs | api | call | rcall
	Files  []int  `json:"files,omitempty"` // delivery list: indices into Files, may repeat or omit
	Root   int    `json:"root,omitempty"`  // for call/rcall: index into the model's method list (mod len)
	Lookup bool   `json:"lookup,omitempty"`
	Model  int    `json:"model,omitempty"` // for call/rcall: 0 = the project's own model, k>0 = synthetic model k-1
	// Noise: for the directory passes, what else lies in the scanned directory: 1 = a .gitignore
	// ignoring *.iml / *.log plus such files sorting before, between and after the sources
	Noise int `json:"noise,omitempty"`
	// SameList: the operation hands over exactly the list (same files, same paths, same slice) of the
	// previous ident/full operation of its process - as `coca deps` and `coca tbs` run the identifier
	// pass and then the full pass over one list
	SameList bool `json:"same_list,omitempty"`
	// ArgForm: how the directory is named on the call: 0 absolute, 1 relative to the working
	// directory, 2 "./"-prefixed relative, 3 absolute with a trailing slash
	ArgForm int `json:"arg_form,omitempty"`
	// ReuseDirOf: k+1 = scan again the directory that operation k of this process scanned (same
	// path, same pass kind), after file Extra has been added inside its first sub-directory (the
	// top directory's own entry list, and so its mtime, stays as it was)
	ReuseDirOf int `json:"reuse_dir_of,omitempty"`
	Extra      int `json:"extra,omitempty"`
	// EditInPlace (with ReuseDirOf): instead of adding a file, the first file of that directory
	// is overwritten by its same-length variant and keeps its modification time (an edit within
	// one tick of a coarse file-system clock, cp -p, rsync -t): a clock fault
	EditInPlace bool `json:"edit_in_place,omitempty"`
	// Symlinks: the delivered source files are symbolic links to files kept elsewhere (shared
	// checkouts, build-tool exec roots)
	Symlinks bool `json:"symlinks,omitempty"`
	// NoIdent (full pass): the identifier set handed over is empty (what `coca analysis` does by default)
	NoIdent bool `json:"no_ident,omitempty"`
	// DirName: the scanned directory lies below a directory named 1 "build", 2 "target", 3 "out/production", 4 "my project (v2)", 5 a Cyrillic name, 6 "a b/-c d", 7 ".jenkins/workspace" (a hidden ancestor), 8 a name in decomposed Unicode (NFD)
	// (a CI checkout location such as /home/ci/build/<repo>): names above the project are not part of it
	DirName int `json:"dir_name,omitempty"`
}

type C07Proc struct {
	Schedule sim.Schedule `json:"schedule"`
	Ops      []C07Op      `json:"ops"`
	Parallel bool         `json:"parallel,omitempty"` // GOMAXPROCS=8
}

type C07Scenario struct {
	// CwdIgnore: the working directory of every process (never the analysed directory itself) holds
	// a .gitignore whose anchored patterns name the top-level package directories
	CwdIgnore bool      `json:"cwd_ignore,omitempty"`
	Source    string    `json:"source"` // generated | fixtures
	Files     []SrcFile `json:"files"`
	Procs     []C07Proc `json:"procs"`
	// Variants > 0: Files[Variants+i] is the same-length variant of Files[i] (its class name ends in q)
	Variants int `json:"variants,omitempty"`
	// Models: synthetic call models (as in C03/C04) for the "generate a graph twice" clause; the
	// project's own model rarely has deep caller chains
	Models [][]MClass `json:"models,omitempty"`
}

type C07 struct{}

func (C07) ID() string { return "C07" }
func (C07) Rule() string {
	return "a scenario = 2-8 Java files (generated conventional projects with colliding identifiers, or real files from _fixtures) and 1-3 simulated processes each executing 2-7 passes (ident/full/bs/api over seeded permutations, subsets and duplications of the file list, with directory noise, four ways of naming the directory, re-scans of a directory after a nested change or a same-mtime in-place edit; call/rcall on the project's model and on synthetic models) in one OS process; each result is compared with the composition of the per-file results of pristine single-operation processes (identifier set and model held fixed). Non-trivial = at least one pass delivered >=2 files or ran as a later operation of its process, and at least two files were judged; distinct = by content hash."
}
func (C07) Budget(tier string) (int, time.Duration) {
	if tier == "thorough" {
		return 6000, 28 * time.Minute
	}
	return 480, 4 * time.Minute
}

func listFixtures() []string {
	var out []string
	if FixtureDir == "" {
		return nil
	}
	filepath.Walk(FixtureDir, func(p string, info os.FileInfo, err error) error {
		if err == nil && !info.IsDir() && strings.HasSuffix(p, ".java") {
			out = append(out, p)
		}
		return nil
	})
	sort.Strings(out)
	return out
}

func c07Options(t *tape.Tape, thorough bool) gen.Options {
	o := gen.Options{MinFiles: 2, MaxFiles: 5, Controllers: true, Interfaces: true}
	if thorough {
		o.MaxFiles = 8
	}
	// swarm: vary the feature mix per scenario
	o.Anonymous = t.Bool(1, 2)
	o.Lambdas = t.Bool(1, 2)
	o.Overloads = t.Bool(1, 4)
	o.BigBodies = t.Bool(1, 4)
	o.TwinNames = t.Bool(1, 3)
	o.SamePkgConflict = t.Bool(1, 2)
	o.ServiceMethod = t.Bool(1, 2)
	o.Enums = t.Bool(1, 3)
	o.Legacy = t.Bool(1, 6)
	o.WideLine = t.Bool(1, 8)
	o.PackageInfo = t.Bool(1, 6)
	o.HalfWritten = t.Bool(1, 8)
	if t.Bool(1, 40) {
		o.MinFiles, o.MaxFiles = 20, 40 // a larger project in one delivery
	}
	o.Nested = t.Bool(1, 2) // differential oracle: shapes beyond the conventional subset cost nothing
	return o
}

func genHistory(t *tape.Tape, nFiles int, thorough bool, passes []string) []C07Proc {
	np := t.Int(1, 3)
	maxOps := 5
	if thorough {
		maxOps = 7
	}
	var procs []C07Proc
	for p := 0; p < np; p++ {
		proc := C07Proc{Schedule: sim.Canonical()}
		if t.Bool(1, 5) {
			proc.Schedule = sim.Schedule{Tail: "seeded", Seed: t.Seed64()}
		} else {
			t.Seed64()
		}
		proc.Parallel = t.Bool(1, 6)
		nops := t.Int(2, maxOps)
		if t.Bool(1, 30) {
			nops = t.Int(12, 20) // a long-lived process
		}
		for o := 0; o < nops; o++ {
			op := C07Op{Pass: passes[t.Pick(len(passes))]}
			if op.Pass == "call" || op.Pass == "rcall" || op.Pass == "apigraph" {
				op.Root = t.Pick(64)
				op.Lookup = op.Pass == "call" && t.Bool(1, 2)
				op.Model = t.Pick(3)
			} else {
				// delivery list: a permutation, then drops, then duplications
				perm := t.Perm(nFiles)
				for _, fi := range perm {
					if nFiles > 1 && t.Bool(1, 5) {
						continue // drop
					}
					op.Files = append(op.Files, fi)
					if t.Bool(1, 8) {
						op.Files = append(op.Files, fi) // dup
					}
				}
				if len(op.Files) == 0 {
					op.Files = []int{perm[0]}
				}
				if n := len(proc.Ops); n > 0 && (op.Pass == "ident" || op.Pass == "full") && (proc.Ops[n-1].Pass == "ident" || proc.Ops[n-1].Pass == "full") && t.Bool(1, 3) {
					op.Files = append([]int(nil), proc.Ops[n-1].Files...)
					op.SameList = true
				}
				if t.Bool(1, 4) {
					op.Noise = 1 + t.Pick(2)
				}
				if t.Bool(1, 3) {
					op.ArgForm = t.Int(1, 4)
				}
				op.Symlinks = t.Bool(1, 6)
				if t.Bool(1, 6) {
					op.DirName = t.Int(1, 9)
				}
				op.NoIdent = op.Pass == "full" && t.Bool(1, 4)
				if (op.Pass == "bs" || op.Pass == "api") && t.Bool(1, 5) {
					for k := len(proc.Ops) - 1; k >= 0; k-- {
						already := false
						for _, o2 := range proc.Ops {
							if o2.ReuseDirOf == k+1 {
								already = true // one re-scan per directory
							}
						}
						if proc.Ops[k].Pass == op.Pass && proc.Ops[k].ReuseDirOf == 0 && !already {
							op.ReuseDirOf = k + 1
							op.Extra = t.Pick(nFiles)
							op.EditInPlace = t.Bool(1, 3)
							op.ArgForm = proc.Ops[k].ArgForm
							op.Noise = 0
							break
						}
					}
				}
			}
			proc.Ops = append(proc.Ops, op)
		}
		procs = append(procs, proc)
	}
	return procs
}

func (C07) Generate(t *tape.Tape, tier string) interface{} {
	thorough := tier == "thorough"
	sc := &C07Scenario{Source: "generated"}
	fixtures := listFixtures()
	if len(fixtures) > 0 && t.Bool(1, 4) {
		sc.Source = "fixtures"
		n := t.Int(2, 5)
		seen := map[int]bool{}
		for i := 0; i < n; i++ {
			k := t.Pick(len(fixtures))
			if seen[k] {
				continue
			}
			seen[k] = true
			b, err := os.ReadFile(fixtures[k])
			if err != nil {
				continue
			}
			rel, _ := filepath.Rel(FixtureDir, fixtures[k])
			sc.Files = append(sc.Files, SrcFile{ID: fmt.Sprintf("f%d", len(sc.Files)), Path: rel, Text: string(b)})
		}
	}
	if sc.Source == "generated" || len(sc.Files) < 2 {
		sc.Source = "generated"
		sc.Files = nil
		p := gen.GenProject(t, c07Options(t, thorough))
		for _, f := range p.Files {
			sc.Files = append(sc.Files, SrcFile{ID: f.ID, Path: f.Path, Text: f.Text})
		}
	}
	sc.Procs = genHistory(t, len(sc.Files), thorough, []string{"ident", "full", "bs", "api", "ident", "full", "bs", "api", "call", "rcall", "call", "rcall", "apigraph"})
	for i := 0; i < 2; i++ {
		sc.Models = append(sc.Models, genModel(t, thorough))
	}
	// same-length variants of every file, when some operation edits a file in place
	needVariants := false
	for _, p := range sc.Procs {
		for _, op := range p.Ops {
			if op.EditInPlace {
				needVariants = true
			}
		}
	}
	if needVariants && sc.Source == "generated" {
		n := len(sc.Files)
		sc.Variants = n
		for i := 0; i < n; i++ {
			f := sc.Files[i]
			base := strings.TrimSuffix(filepath.Base(f.Path), ".java")
			v := f
			// the variant keeps the logical id: it IS that file after an edit
			if len(base) > 1 && !strings.HasSuffix(base, "q") {
				nb := base[:len(base)-1] + "q"
				v.Text = strings.ReplaceAll(f.Text, base, nb)
			}
			sc.Files = append(sc.Files, v)
		}
	}
	sc.CwdIgnore = t.Bool(1, 3)
	return sc
}

func (C07) Components() ([]string, []string) {
	return []string{"ANTLR Java lexer/parser (generated, real)", "java_identify listener", "ast_java full listener", "bs_java listener + bs app", "ast_api_java listener + api app", "call / rcall graph generators", "javaapp / cocafile (real file system)", "map-iteration seam S1 in all of them"}, []string{}
}
func (C07) Assumptions() []string {
	return []string{
		"the identifier set and the model handed to full/api/call/rcall are the concatenation of the per-file results of pristine processes and are held fixed (as the property states)",
		"files whose pristine run panics are excluded (panics are C09's subject); cross-class graphConnectedCall smells name no file and are excluded",
		"functions inside a type are compared as a multiset (C08 exempts their order)",
	}
}

// ---- execution ----

type c07run struct {
	symlinks     bool              // place() creates symbolic links to files in a side store
	links        int               // symbolic links made for directory arguments so far
	placed       map[string]string // dir|file id -> first path placed there
	hardlinkDups bool
	dirName      int // newDir() nests the directory below build/, target/, out/production/
	ctx          *sim.RunCtx
	sc           *C07Scenario
	out          *sim.Outcome
	paths        map[string]string // materialised absolute path -> logical "<ID>"
	seq          int
}

// place writes file fi under a fresh directory entry and returns its path.
// placedBase is the file name under which a source is materialised: neutral (coca's file filters look at
// names), except for package-info.java, the one file name that means something by itself.
func placedBase(f SrcFile) string {
	if strings.HasSuffix(f.Path, "/package-info.java") {
		return "package-info.java"
	}
	return "F" + f.ID + ".java"
}

func (r *c07run) place(dir string, pos int, fi int) (string, error) {
	f := r.sc.Files[fi]
	// dodge coca's file filters for the directory passes: neutral base name
	p := filepath.Join(dir, fmt.Sprintf("%02d_%s", pos, f.ID), placedBase(f))
	if err := os.MkdirAll(filepath.Dir(p), 0755); err != nil {
		return "", err
	}
	if first, ok := r.placed[dir+"|"+f.ID]; ok && r.hardlinkDups {
		// the same file delivered twice: the second copy is a hard link of the first (cp -al, dedup tools)
		if err := os.Link(first, p); err == nil {
			r.out.Faults["duplicate-is-hard-link"]++
			r.paths[p] = "<" + f.ID + ">"
			return p, nil
		}
	}
	if r.placed == nil {
		r.placed = map[string]string{}
	}
	r.placed[dir+"|"+f.ID] = p
	if r.symlinks {
		r.seq++
		store := filepath.Join(r.ctx.Dir, "store", fmt.Sprintf("s%d_%s.java", r.seq, f.ID))
		os.MkdirAll(filepath.Dir(store), 0755)
		if err := os.WriteFile(store, []byte(materialiseLegacy(f.Text)), 0644); err != nil {
			return "", err
		}
		if err := os.Symlink(store, p); err != nil {
			return "", err
		}
		r.out.Faults["source-file-is-symlink"]++
	} else if err := os.WriteFile(p, []byte(materialiseLegacy(f.Text)), 0644); err != nil {
		return "", err
	}
	r.paths[p] = "<" + f.ID + ">"
	return p, nil
}

// argForm renders a directory argument in the drawn form and registers the path spellings that
// can appear in results so that they normalise to the same logical ids.
func (r *c07run) argForm(dir string, form int) string {
	rel, err := filepath.Rel(r.ctx.Dir, dir)
	if err != nil {
		return dir
	}
	out := dir
	switch form {
	case 1:
		out = rel
	case 2:
		out = "./" + rel
	case 3:
		out = dir + "/"
	case 4:
		// the directory is reached through a symbolic link (current -> releases/v3)
		r.links++
		link := filepath.Join(r.ctx.Dir, fmt.Sprintf("current%d", r.links)) // one link per operation: all links exist before the process starts
		os.Remove(link)
		if err := os.Symlink(dir, link); err == nil {
			out = link
			r.out.Faults["directory-named-through-symlink"]++
		}
	}
	if form != 0 {
		r.out.Faults["arg-form"]++
		// spellings coca may derive from the argument: joined as given, or cleaned by filepath.Walk
		for p, id := range r.paths {
			if strings.HasPrefix(p, dir+"/") {
				tail := strings.TrimPrefix(p, dir+"/")
				r.paths[out+"/"+tail] = id
				r.paths[filepath.Clean(out)+"/"+tail] = id
				r.paths[strings.TrimSuffix(out, "/")+"//"+tail] = id
			}
		}
	}
	return out
}

// addNoise drops a .gitignore and ignored regular files around the sources of a scanned directory.
func (r *c07run) addNoise(dir string, n int, level int) {
	// what merge tools, editors and interrupted rewrites leave next to a source
	filepath.Walk(dir, func(p string, fi os.FileInfo, err error) error {
		if err == nil && fi.Mode().IsRegular() && strings.HasSuffix(p, ".java") {
			d, base := filepath.Split(p)
			os.WriteFile(d+"."+base+".orig", []byte("kept by a merge tool\n"), 0644)
			os.WriteFile(p+".orig", []byte("class Old {}\n"), 0644)
			os.WriteFile(p+"~", []byte("class Old {}\n"), 0644)
			return filepath.SkipDir
		}
		return nil
	})
	if level > 1 {
		// between the package directories: a directory chain deeper than PATH_MAX
		if err := makeDeepDir(dir, "aa_cache"); err == nil {
			r.out.Faults["noise-directory-deeper-than-PATH_MAX"]++
		}
	}
	os.WriteFile(filepath.Join(dir, ".gitignore"), []byte("*.iml\n*.log\nbuild/\n"), 0644)
	os.WriteFile(filepath.Join(dir, "00_aaa.iml"), []byte("<module/>\n"), 0644)
	os.WriteFile(filepath.Join(dir, "zz_last.log"), []byte("log\n"), 0644)
	if n > 1 {
		os.WriteFile(filepath.Join(dir, "00_m.log"), []byte("log\n"), 0644)
		os.MkdirAll(filepath.Join(dir, "00_build"), 0755)
		os.WriteFile(filepath.Join(dir, "00_build", "x.log"), []byte("log\n"), 0644)
	}
	r.out.Faults["dir-noise"]++
}

func (r *c07run) newDir() string {
	r.seq++
	parent := []string{"", "build", "target", filepath.Join("out", "production"), "my project (v2)", "\u043f\u0440\u043e\u0435\u043a\u0442-\u00fc", filepath.Join("a b", "-c d"), filepath.Join(".jenkins", "workspace"), "cafe\u0301-service", "Acme, Inc"}[r.dirName%10]
	if r.dirName%10 >= 4 {
		r.out.Faults["path-with-spaces-or-non-ascii"]++
	} else if parent != "" {
		r.out.Faults["checkout-below-build-or-target"]++
	}
	d := filepath.Join(r.ctx.Dir, parent, fmt.Sprintf("d%d", r.seq))
	os.MkdirAll(d, 0755)
	return d
}

// normalise replaces every materialised path in a JSON text by the logical file id.
func (r *c07run) normalise(raw json.RawMessage) json.RawMessage {
	s := string(raw)
	var keys []string
	for p := range r.paths {
		keys = append(keys, p)
	}
	sort.Slice(keys, func(i, j int) bool { return len(keys[i]) > len(keys[j]) })
	for _, p := range keys {
		s = strings.ReplaceAll(s, p, r.paths[p])
	}
	return json.RawMessage(s)
}

// canonType sorts Functions (recursively inside InnerStructures) of a type entry.
func canonValue(v interface{}) interface{} {
	switch x := v.(type) {
	case map[string]interface{}:
		for k, e := range x {
			x[k] = canonValue(e)
		}
		if fs, ok := x["Functions"].([]interface{}); ok && len(fs) > 1 {
			type kv struct {
				k string
				v interface{}
			}
			var items []kv
			for _, f := range fs {
				b, _ := json.Marshal(f)
				items = append(items, kv{string(b), f})
			}
			sort.SliceStable(items, func(i, j int) bool { return items[i].k < items[j].k })
			for i := range items {
				fs[i] = items[i].v
			}
		}
		return x
	case []interface{}:
		for i := range x {
			x[i] = canonValue(x[i])
		}
		return x
	}
	return v
}

func canonList(raw json.RawMessage) ([]string, error) {
	var items []interface{}
	if len(raw) == 0 || string(raw) == "null" {
		return nil, nil
	}
	if err := json.Unmarshal(raw, &items); err != nil {
		return nil, err
	}
	var out []string
	for _, it := range items {
		b, _ := json.Marshal(canonValue(it))
		out = append(out, string(b))
	}
	return out, nil
}

func diffPath(a, b string) string {
	var x, y interface{}
	json.Unmarshal([]byte(a), &x)
	json.Unmarshal([]byte(b), &y)
	return diffValue("", x, y)
}

func diffValue(path string, x, y interface{}) string {
	switch xv := x.(type) {
	case map[string]interface{}:
		yv, ok := y.(map[string]interface{})
		if !ok {
			return path
		}
		var keys []string
		for k := range xv {
			keys = append(keys, k)
		}
		for k := range yv {
			if _, ok := xv[k]; !ok {
				keys = append(keys, k)
			}
		}
		sort.Strings(keys)
		for _, k := range keys {
			if d := diffValue(path+"."+k, xv[k], yv[k]); d != "" {
				return d
			}
		}
		return ""
	case []interface{}:
		yv, ok := y.([]interface{})
		if !ok {
			return path
		}
		if len(xv) != len(yv) {
			return path + "[len]"
		}
		for i := range xv {
			if d := diffValue(path+"[]", xv[i], yv[i]); d != "" {
				return d
			}
		}
		return ""
	}
	xb, _ := json.Marshal(x)
	yb, _ := json.Marshal(y)
	if string(xb) != string(yb) {
		return path
	}
	return ""
}

// firstDiff finds, between two multisets of JSON strings, a pair that differs and the JSON path of the first difference.
func firstDiff(got, want []string) (string, string, string) {
	g, w := sorted(got), sorted(want)
	// remove common
	var go2, wo []string
	i, j := 0, 0
	for i < len(g) && j < len(w) {
		switch {
		case g[i] == w[j]:
			i++
			j++
		case g[i] < w[j]:
			go2 = append(go2, g[i])
			i++
		default:
			wo = append(wo, w[j])
			j++
		}
	}
	go2 = append(go2, g[i:]...)
	wo = append(wo, w[j:]...)
	if len(go2) == 0 && len(wo) == 0 {
		return "", "", ""
	}
	if len(go2) == 0 {
		return "[missing-entry]", "", wo[0]
	}
	if len(wo) == 0 {
		return "[extra-entry]", go2[0], ""
	}
	// pair entries that describe the same thing (same identity keys), then prefer the deepest difference
	ident := func(js string) string {
		var m map[string]interface{}
		if json.Unmarshal([]byte(js), &m) != nil {
			return ""
		}
		return fmt.Sprint(m["FilePath"], "|", m["Package"], "|", m["NodeName"], "|", m["PackageName"], "|", m["ClassName"], "|", m["MethodName"])
	}
	best, bi, bj := "", 0, 0
	bestScore := -1
	for a := range go2 {
		for b := range wo {
			p := diffPath(go2[a], wo[b])
			score := strings.Count(p, ".") + strings.Count(p, "[")
			if ident(go2[a]) == ident(wo[b]) {
				score += 100
			}
			if score > bestScore {
				best, bi, bj, bestScore = p, a, b, score
			}
		}
	}
	if bestScore < 100 {
		// no counterpart with the same identity: an entry is extra or missing
		if len(go2) >= len(wo) {
			return "[extra-or-changed-entry]", go2[0], wo[0]
		}
		return "[missing-or-changed-entry]", go2[0], wo[0]
	}
	return best, go2[bi], wo[bj]
}

func (C07) Run(ctx *sim.RunCtx, data json.RawMessage) (*sim.Outcome, error) {
	var sc C07Scenario
	if err := json.Unmarshal(data, &sc); err != nil {
		return nil, sim.Harness("scenario: %v", err)
	}
	out := &sim.Outcome{Faults: map[string]int{}, Probes: map[string]int{}}
	if sc.CwdIgnore {
		os.WriteFile(filepath.Join(ctx.Dir, ".gitignore"), []byte(cwdIgnoreText), 0644)
		out.Faults["working-directory-holds-gitignore"]++
	}
	out.ContentHash = hashJSON(sc)
	r := &c07run{ctx: ctx, sc: &sc, out: out, paths: map[string]string{}}
	n := len(sc.Files)
	if n == 0 {
		out.Skipped = "no files"
		return out, nil
	}
	canon := sim.Canonical()
	// ---- pristine references: one process, one operation, one file ----
	type ref struct {
		ok   bool
		list []string // canonical entries (ident/full: types; api: entries)
		bs   struct {
			node   string
			smells []string
		}
		raw json.RawMessage
	}
	refs := map[string][]ref{"ident": make([]ref, n), "full": make([]ref, n), "bs": make([]ref, n), "api": make([]ref, n)}
	pristine := func(op sim.Op) (*sim.Record, error) {
		res, err := ctx.Run(&sim.Proc{Schedule: canon, Cwd: ctx.Dir, Ops: []sim.Op{op}})
		if err != nil {
			return nil, err
		}
		if !res.Completed(0) {
			return nil, nil
		}
		return &res.Records[0], nil
	}
	refDir := r.newDir()
	refPath := make([]string, n)
	for i := range sc.Files {
		p, err := r.place(refDir, i, i)
		if err != nil {
			return nil, sim.Harness("%v", err)
		}
		refPath[i] = p
	}
	excluded := make([]bool, n)
	var identAll []json.RawMessage
	for i := range sc.Files {
		rec, err := pristine(sim.Op{Op: "ident", Args: map[string]interface{}{"files": []string{refPath[i]}}})
		if err != nil {
			return nil, err
		}
		if rec == nil || !rec.OK {
			excluded[i] = true
			out.Probes["pristine-panic:ident"]++
			continue
		}
		res := r.normalise(rec.Result)
		l, err := canonList(res)
		if err != nil {
			return nil, sim.Harness("ident result: %v", err)
		}
		refs["ident"][i] = ref{ok: true, list: l, raw: rec.Result}
		var items []json.RawMessage
		json.Unmarshal(rec.Result, &items)
		identAll = append(identAll, items...)
	}
	identFile := filepath.Join(ctx.Dir, "ident.json")
	if identAll == nil {
		identAll = []json.RawMessage{}
	}
	writeJSON(identFile, identAll)
	var depsAll []json.RawMessage
	for i := range sc.Files {
		if excluded[i] {
			continue
		}
		rec, err := pristine(sim.Op{Op: "full", Args: map[string]interface{}{"ident": identFile, "files": []string{refPath[i]}}})
		if err != nil {
			return nil, err
		}
		if rec == nil || !rec.OK {
			excluded[i] = true
			out.Probes["pristine-panic:full"]++
			continue
		}
		l, err := canonList(r.normalise(rec.Result))
		if err != nil {
			return nil, sim.Harness("full result: %v", err)
		}
		refs["full"][i] = ref{ok: true, list: l}
		var items []json.RawMessage
		json.Unmarshal(rec.Result, &items)
		depsAll = append(depsAll, items...)
	}
	depsFile := filepath.Join(ctx.Dir, "deps.json")
	if depsAll == nil {
		depsAll = []json.RawMessage{}
	}
	writeJSON(depsFile, depsAll)
	for i := range sc.Files {
		if excluded[i] {
			continue
		}
		d := r.newDir()
		if _, err := r.place(d, 0, i); err != nil {
			return nil, sim.Harness("%v", err)
		}
		rec, err := pristine(sim.Op{Op: "bs", Args: map[string]interface{}{"dir": d}})
		if err != nil {
			return nil, err
		}
		if rec == nil || !rec.OK {
			excluded[i] = true
			out.Probes["pristine-panic:bs"]++
			continue
		}
		node, smells, err := r.splitBS(rec.Result)
		if err != nil {
			return nil, err
		}
		if len(node) != 1 {
			return nil, sim.Harness("pristine bs of one file produced %d nodes", len(node))
		}
		rf := ref{ok: true}
		rf.bs.node = node[0]
		rf.bs.smells = smells["<"+sc.Files[i].ID+">"]
		refs["bs"][i] = rf
		rec, err = pristine(sim.Op{Op: "api", Args: map[string]interface{}{"dir": d, "deps": depsFile, "ident": identFile}})
		if err != nil {
			return nil, err
		}
		if rec == nil || !rec.OK {
			excluded[i] = true
			out.Probes["pristine-panic:api"]++
			continue
		}
		l, err := canonList(r.normalise(rec.Result))
		if err != nil {
			return nil, sim.Harness("api result: %v", err)
		}
		refs["api"][i] = ref{ok: true, list: l}
		if len(l) > 0 {
			out.Probes["file-with-apis"]++
		}
	}
	judgedFiles := 0
	for i := range excluded {
		if !excluded[i] {
			judgedFiles++
		}
	}
	if judgedFiles < 1 {
		out.Skipped = "every file panics in a pristine run (C09's subject)"
		return out, nil
	}
	// method list of the model for call/rcall roots
	var model []struct {
		NodeName, Package string
		Functions         []struct{ Name string }
	}
	{
		b, _ := json.Marshal(depsAll)
		json.Unmarshal(b, &model)
	}
	var methods []string
	for _, c := range model {
		for _, f := range c.Functions {
			methods = append(methods, c.Package+"."+c.NodeName+"."+f.Name)
		}
	}
	sort.Strings(methods)
	graphRef := map[string]string{}
	modelFiles := []string{depsFile}
	modelMethods := [][]string{methods}
	for i, m := range sc.Models {
		mp := filepath.Join(ctx.Dir, fmt.Sprintf("synthetic%d.json", i))
		if err := writeJSON(mp, m); err != nil {
			return nil, sim.Harness("%v", err)
		}
		modelFiles = append(modelFiles, mp)
		modelMethods = append(modelMethods, declaredMethods(m))
	}
	graphOf := func(op C07Op) (sim.Op, string) {
		mi := op.Model % len(modelFiles)
		root := "none.Such.method"
		if ms := modelMethods[mi]; len(ms) > 0 {
			root = ms[op.Root%len(ms)]
		}
		if op.Pass == "apigraph" {
			// the `coca api` chain graph over two endpoints of that model: the other graph entry point
			var apis []RestAPI
			var names []string
			for k, r := range []string{root, "none.Such.method"} {
				if ms := modelMethods[mi]; k == 1 && len(ms) > 0 {
					r = ms[(op.Root*7+3)%len(ms)]
				}
				parts := strings.Split(r, ".")
				if len(parts) < 3 {
					continue
				}
				apis = append(apis, RestAPI{Uri: fmt.Sprintf("/e%d", k), HttpMethod: "GET", MethodName: parts[len(parts)-1], ClassName: parts[len(parts)-2], PackageName: strings.Join(parts[:len(parts)-2], ".")})
				names = append(names, r)
			}
			return sim.Op{Op: "callByFiles", Args: map[string]interface{}{"apis": apis, "model": modelFiles[mi], "di": map[string]string{}}}, fmt.Sprintf("apigraph|%d|%s", mi, strings.Join(names, ","))
		}
		if op.Pass == "call" {
			return sim.Op{Op: "call", Args: map[string]interface{}{"root": root, "model": modelFiles[mi], "lookup": op.Lookup}}, fmt.Sprintf("call|%d|%s|%v", mi, root, op.Lookup)
		}
		return sim.Op{Op: "rcall", Args: map[string]interface{}{"target": root, "model": modelFiles[mi]}}, fmt.Sprintf("rcall|%d|%s", mi, root)
	}

	// references of the full pass with an EMPTY identifier set, computed on first use
	full0 := make([]ref, n)
	full0Done := false
	ensureFull0 := func() error {
		if full0Done {
			return nil
		}
		full0Done = true
		for i := range sc.Files {
			if excluded[i] {
				continue
			}
			rec, err := pristine(sim.Op{Op: "full", Args: map[string]interface{}{"ident": "", "files": []string{refPath[i]}}})
			if err != nil {
				return err
			}
			if rec == nil || !rec.OK {
				continue
			}
			l, err := canonList(r.normalise(rec.Result))
			if err != nil {
				return sim.Harness("full result: %v", err)
			}
			full0[i] = ref{ok: true, list: l}
		}
		return nil
	}
	seen := map[string]bool{}
	add := func(class, detail string, sig map[string]string) {
		if seen[class] {
			return
		}
		seen[class] = true
		out.Violations = append(out.Violations, sim.Violation{Class: "C07/" + class, Detail: detail, Sig: sig})
	}
	multiFile := false
	laterOp := false
	var hist []string
	for pi, p := range sc.Procs {
		proc := &sim.Proc{Schedule: p.Schedule, Cwd: ctx.Dir, Parallel: p.Parallel}
		if p.Parallel {
			out.Faults["real-parallelism"]++
		}
		type delivered struct {
			files []int
			dir   string
		}
		var dl []delivered
		var lastPaths []string // the list of the previous ident/full operation of this process
		var procIdx []int      // index in proc.Ops of the operation that realises p.Ops[i]
		for _, op := range p.Ops {
			var files []int
			for _, fi := range op.Files {
				if fi < n && !excluded[fi] {
					files = append(files, fi)
				}
			}
			d := delivered{files: files}
			hist = append(hist, fmt.Sprintf("%s%d", op.Pass, len(files)))
			r.symlinks = op.Symlinks
			r.hardlinkDups = op.Symlinks || op.DirName%2 == 1 // drawn values reused: about half of the operations
			r.dirName = op.DirName
			switch op.Pass {
			case "ident", "full":
				var paths []string
				if op.SameList && lastPaths != nil {
					paths = lastPaths
					out.Faults["same-file-list-handed-over-again"]++
				} else {
					dir := r.newDir()
					for pos, fi := range files {
						pth, err := r.place(dir, pos, fi)
						if err != nil {
							return nil, sim.Harness("%v", err)
						}
						paths = append(paths, pth)
					}
					if paths == nil {
						paths = []string{}
					}
				}
				lastPaths = paths
				if op.Pass == "ident" {
					proc.Ops = append(proc.Ops, sim.Op{Op: "ident", Args: map[string]interface{}{"files": paths}})
				} else if op.NoIdent {
					if err := ensureFull0(); err != nil {
						return nil, err
					}
					proc.Ops = append(proc.Ops, sim.Op{Op: "full", Args: map[string]interface{}{"ident": "", "files": paths}})
				} else {
					proc.Ops = append(proc.Ops, sim.Op{Op: "full", Args: map[string]interface{}{"ident": identFile, "files": paths}})
				}
			case "bs", "api":
				dir := ""
				if k := op.ReuseDirOf - 1; op.EditInPlace && sc.Variants > 0 && k >= 0 && k < len(dl) && dl[k].dir != "" && len(dl[k].files) > 0 && dl[k].files[0] < sc.Variants && countOf(dl[k].files, dl[k].files[0]) == 1 && !excluded[sc.Variants+dl[k].files[0]] && len(sc.Files[sc.Variants+dl[k].files[0]].Text) == len(sc.Files[dl[k].files[0]].Text) {
					// the same directory again; its first file was edited in place, same size, same mtime
					dir = dl[k].dir
					first := dl[k].files[0]
					vi := sc.Variants + first
					fp := filepath.Join(dir, fmt.Sprintf("%02d_%s", 0, sc.Files[first].ID), placedBase(sc.Files[first]))
					proc.Ops = append(proc.Ops, sim.Op{Op: "writeFile", Args: map[string]interface{}{"path": fp, "text": sc.Files[vi].Text, "preserve_mtime": true}})
					files = append([]int{vi}, dl[k].files[1:]...)
					d.files = files
					out.Faults["file-edited-in-place-same-mtime"]++
				} else if k := op.ReuseDirOf - 1; k >= 0 && k < len(dl) && dl[k].dir != "" && len(dl[k].files) > 0 && op.Extra < n && !excluded[op.Extra] {
					// the same directory again, one file richer below its first sub-directory
					dir = dl[k].dir
					first := dl[k].files[0]
					xp := filepath.Join(dir, fmt.Sprintf("%02d_%s", 0, sc.Files[first].ID), "zzExtra"+sc.Files[op.Extra].ID+".java")
					// the file appears between the two scans: written by the process itself at this point of its script
					proc.Ops = append(proc.Ops, sim.Op{Op: "writeFile", Args: map[string]interface{}{"path": xp, "text": sc.Files[op.Extra].Text}})
					r.paths[xp] = "<" + sc.Files[op.Extra].ID + ">"
					files = append([]int{first, op.Extra}, dl[k].files[1:]...)
					d.files = files
					out.Faults["dir-rescanned-after-nested-change"]++
				} else {
					dir = r.newDir()
					for pos, fi := range files {
						if _, err := r.place(dir, pos, fi); err != nil {
							return nil, sim.Harness("%v", err)
						}
					}
				}
				d.dir = dir
				if op.Noise > 0 {
					r.addNoise(dir, len(files), op.Noise)
				}
				arg := r.argForm(dir, op.ArgForm)
				if op.Pass == "bs" {
					proc.Ops = append(proc.Ops, sim.Op{Op: "bs", Args: map[string]interface{}{"dir": arg}})
				} else {
					proc.Ops = append(proc.Ops, sim.Op{Op: "api", Args: map[string]interface{}{"dir": arg, "deps": depsFile, "ident": identFile}})
				}
			case "call", "rcall", "apigraph":
				sop, key := graphOf(op)
				if _, ok := graphRef[key]; !ok {
					rec, err := pristine(sop)
					if err != nil {
						return nil, err
					}
					if rec == nil || !rec.OK {
						graphRef[key] = "\x00pristine-failed"
					} else {
						graphRef[key] = string(rec.Result)
					}
				}
				proc.Ops = append(proc.Ops, sop)
			default:
				return nil, sim.Harness("unknown pass %q", op.Pass)
			}
			r.symlinks = false
			r.dirName = 0
			dl = append(dl, d)
			procIdx = append(procIdx, len(proc.Ops)-1)
		}
		hist = append(hist, "|")
		res, err := ctx.Run(proc)
		if err != nil {
			return nil, err
		}
		if pi > 0 {
			out.Faults["restart"]++
		}
		if res.NonCanon > 0 {
			out.Faults["map-perm"] += res.NonCanon
		}
		out.ScheduleHashes = append(out.ScheduleHashes, res.EventHash)
		for oi, op := range p.Ops {
			where := fmt.Sprintf("process %d op %d (%s)", pi, oi, op.Pass)
			ri := procIdx[oi]
			if !res.Completed(ri) {
				add(op.Pass+"/history-run-ends-process", fmt.Sprintf("%s: the process ended with %q although every file passes alone\n%s", where, res.Ended, firstLines(res.Stderr, 8)), map[string]string{"pass": op.Pass, "clause": "ends-process"})
				break
			}
			rec := res.Records[ri]
			files := dl[oi].files
			if oi > 0 {
				out.Faults["no-restart"]++
				laterOp = true
			}
			if len(files) >= 2 {
				multiFile = true
			}
			// fault accounting
			if op.Pass != "call" && op.Pass != "rcall" && op.Pass != "apigraph" {
				inOrder := true
				dups := map[int]int{}
				for k := range files {
					if k > 0 && files[k] < files[k-1] {
						inOrder = false
					}
					dups[files[k]]++
				}
				if !inOrder {
					out.Faults["reorder"]++
				}
				if len(dups) < judgedFiles {
					out.Faults["drop"]++
				}
				if len(dups) < len(files) {
					out.Faults["dup"]++
				}
			}
			if !rec.OK {
				add(op.Pass+"/history-run-panics", fmt.Sprintf("%s panicked although every file passes alone: %s", where, rec.Panic), map[string]string{"pass": op.Pass, "clause": "panics"})
				continue
			}
			switch op.Pass {
			case "ident", "full", "api":
				got, err := canonList(r.normalise(rec.Result))
				if err != nil {
					return nil, sim.Harness("%s result: %v", op.Pass, err)
				}
				var want []string
				skipJudge := false
				for _, fi := range files {
					if op.Pass == "full" && op.NoIdent {
						if !full0[fi].ok {
							skipJudge = true
						}
						want = append(want, full0[fi].list...)
					} else {
						want = append(want, refs[op.Pass][fi].list...)
					}
				}
				if skipJudge {
					out.Probes["no-ident-reference-missing"]++
					continue
				}
				if op.Pass == "full" && op.NoIdent {
					out.Faults["empty-identifier-set"]++
				}
				if path, g, w := firstDiff(got, want); path != "" {
					names := []string{}
					for _, fi := range files {
						names = append(names, sc.Files[fi].ID)
					}
					add(op.Pass+"/differs-from-pristine"+generalise(path),
						fmt.Sprintf("%s over files %v: entry differs from the file's pristine result at %s\n got: %s\nwant: %s", where, names, path, clip(g, 600), clip(w, 600)),
						map[string]string{"pass": op.Pass, "clause": "differs-from-pristine", "path": generalise(path)})
				}
			case "bs":
				nodes, smells, err := r.splitBS(rec.Result)
				if err != nil {
					return nil, err
				}
				if len(nodes) != len(files) {
					var got []string
					for _, nd := range nodes {
						var x struct{ NodeName, FilePath string }
						json.Unmarshal([]byte(nd), &x)
						got = append(got, x.FilePath+":"+x.NodeName)
					}
					add("bs/node-count", fmt.Sprintf("%s: %d nodes for %d delivered files\n nodes: %v", where, len(nodes), len(files), got), map[string]string{"pass": "bs", "clause": "node-count"})
					continue
				}
				// per-file model equality (nodes come in directory order = delivery order)
				for k, fi := range files {
					if nodes[k] != refs["bs"][fi].bs.node {
						path := diffPath(nodes[k], refs["bs"][fi].bs.node)
						add("bs/model-differs-from-pristine"+generalise(path),
							fmt.Sprintf("%s: bad-smell model of file %s (position %d) differs from its pristine model at %s\n got: %s\nwant: %s", where, sc.Files[fi].ID, k, path, clip(nodes[k], 600), clip(refs["bs"][fi].bs.node, 600)),
							map[string]string{"pass": "bs", "clause": "model-differs", "path": generalise(path)})
						break
					}
				}
				// per-file smell entries
				count := map[int]int{}
				for _, fi := range files {
					count[fi]++
				}
				for fi, c := range count {
					var want []string
					for k := 0; k < c; k++ {
						want = append(want, refs["bs"][fi].bs.smells...)
					}
					got := smells["<"+sc.Files[fi].ID+">"]
					if path, g, w := firstDiff(got, want); path != "" {
						add("bs/smells-differ-from-pristine",
							fmt.Sprintf("%s: bad-smell entries of file %s differ from its pristine entries at %s\n got: %s\nwant: %s", where, sc.Files[fi].ID, path, clip(g, 400), clip(w, 400)),
							map[string]string{"pass": "bs", "clause": "smells-differ"})
					}
				}
			case "call", "rcall", "apigraph":
				_, key := graphOf(op)
				want := graphRef[key]
				if want == "\x00pristine-failed" {
					out.Probes["pristine-graph-failed"]++
					continue
				}
				if string(rec.Result) != want {
					add(op.Pass+"/graph-differs-from-first-generation",
						fmt.Sprintf("%s %s: graph differs from the graph a pristine process generates\n got: %s\nwant: %s", where, key, clip(string(rec.Result), 700), clip(want, 700)),
						map[string]string{"pass": op.Pass, "clause": "graph-differs"})
				}
			}
		}
	}
	out.HistoryHash = hashJSON(hist)
	out.NonTrivial = (multiFile || laterOp) && judgedFiles >= 2
	var names []string
	for _, f := range sc.Files {
		names = append(names, f.Path)
	}
	sample := map[string]interface{}{"source": sc.Source, "files": names, "processes": sc.Procs}
	if len(sc.Files) > 0 {
		sample["first_file_text"] = clip(sc.Files[0].Text, 1200)
	}
	out.Sample = sample
	return out, nil
}

func countOf(xs []int, x int) int {
	c := 0
	for _, v := range xs {
		if v == x {
			c++
		}
	}
	return c
}

// generalise turns a concrete JSON path into a class-stable one (already index-free).
func generalise(p string) string {
	if p == "" {
		return ""
	}
	return "@" + p
}

func clip(s string, n int) string {
	if len(s) > n {
		return s[:n] + "..."
	}
	return s
}

// splitBS splits a bs result into per-node canonical JSON (in order) and smells grouped by file id.
func (r *c07run) splitBS(raw json.RawMessage) ([]string, map[string][]string, error) {
	var v struct {
		Nodes  []json.RawMessage        `json:"nodes"`
		Smells []map[string]interface{} `json:"smells"`
	}
	if err := json.Unmarshal(r.normalise(raw), &v); err != nil {
		return nil, nil, sim.Harness("bs result: %v", err)
	}
	var nodes []string
	for _, nd := range v.Nodes {
		var x interface{}
		json.Unmarshal(nd, &x)
		b, _ := json.Marshal(x)
		nodes = append(nodes, string(b))
	}
	smells := map[string][]string{}
	for _, s := range v.Smells {
		file, _ := s["EntityName"].(string)
		if file == "" {
			continue // cross-class entries name no file
		}
		b, _ := json.Marshal(s)
		smells[file] = append(smells[file], string(b))
	}
	return nodes, smells, nil
}
