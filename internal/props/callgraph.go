package props

import (
	"bytes"
	"encoding/json"
	"fmt"
	"os"
	"path/filepath"
	"sort"
	"strings"
	"time"

	"verif/internal/sim"
	"verif/internal/tape"
)

// ---- model (the subset of coca's CodeDataStruct JSON that the graph generators read) ----

type MCall struct {
	Package      string
	NodeName     string
	FunctionName string
	Type         string // how the front-end classified the call site (lambda, field, self, chain ...): no graph clause depends on it
	// Position of the call site; several recorded calls may share one start position (the creator of an
	// anonymous implementation of a nested type is recorded once per identifier of the created name)
	Position MPos
}

type MPos struct {
	StartLine, StartLinePosition, StopLine, StopLinePosition int
}

type MFunc struct {
	Name          string
	FunctionCalls []MCall
	IsConstructor bool // real models flag every constructor declaration
}

type MClass struct {
	NodeName  string
	Package   string
	Type      string
	Functions []MFunc
}

func (c MCall) full() string {
	if c.FunctionName == "" {
		return c.Package + "." + c.NodeName
	}
	return c.Package + "." + c.NodeName + "." + c.FunctionName
}

type RestAPI struct {
	Uri         string
	HttpMethod  string
	MethodName  string
	PackageName string
	ClassName   string
}

type CGOp struct {
	Kind   string            `json:"kind"` // call | callByFiles | rcall
	Model  int               `json:"model"`
	Root   string            `json:"root,omitempty"`
	Lookup bool              `json:"lookup,omitempty"`
	Apis   []RestAPI         `json:"apis,omitempty"`
	DI     map[string]string `json:"di,omitempty"`
	// Reuse: decode the model into the process's long-lived model variable (what cmd/call.go,
	// cmd/rcall.go and cmd/api.go do with their package-level parsedDeps), instead of a fresh slice
	Reuse bool `json:"reuse,omitempty"`
}

type CGProc struct {
	Schedule sim.Schedule `json:"schedule"`
	Ops      []CGOp       `json:"ops"`
	Parallel bool         `json:"parallel,omitempty"` // GOMAXPROCS=8
}

// CGCliStep is one `coca call` / `coca rcall` command line run against a model file.
type CGCliStep struct {
	Cmd    string `json:"cmd"` // call | rcall
	Model  int    `json:"model"`
	Root   string `json:"root"`
	Lookup bool   `json:"lookup,omitempty"`
	// Sparse: the model file omits empty arrays (valid JSON a user may write by hand); used for
	// `call` only, whose command decodes into a fresh variable
	Sparse bool `json:"sparse,omitempty"`
	// UseDefault: no -d is given: the command reads coca_reporter/deps.json, which holds model 0
	// since before the first command (only drawn for steps on model 0)
	UseDefault bool `json:"use_default,omitempty"`
	// ViaLink: the model file is named through a symbolic link and "..": -d link/../viaK.json with
	// link -> sub/deeper, which the kernel resolves to sub/viaK.json (a lexically cleaned path would not)
	ViaLink bool `json:"via_link,omitempty"`
	// ViaTilde: the model file is named by a relative path that starts with a tilde (~old/full0.json)
	ViaTilde bool `json:"via_tilde,omitempty"`
	// ViaPipe: the model file named with -d is a named pipe that delivers the model's bytes
	ViaPipe bool `json:"via_pipe,omitempty"`
	// Padded > 0: the model file is a copy made larger than Padded MiB by one extra method-less class
	// with a very long FilePath (model files of big code bases reach tens of MiB)
	Padded int `json:"padded,omitempty"`
	// TornBefore > 0: before this command the reports in coca_reporter/ are cut to that percentage of
	// their length (100: to nothing), as a command interrupted in the middle of its writes leaves them
	TornBefore int `json:"torn_before,omitempty"`
}

type CGScenario struct {
	Models [][]MClass `json:"models"`
	Procs  []CGProc   `json:"procs"`
	// CliProcs: the CLI route. All processes share ONE working directory whose coca_reporter/
	// persists (durable state); the steps of one process run in that OS process one after the
	// other (what coca's own command tests do), a new process is a restart.
	CliProcs [][]CGCliStep `json:"cli_procs,omitempty"`
	// CliTmpOtherFS[i]: CLI process i runs with $TMPDIR on another file system
	CliTmpOtherFS []bool `json:"cli_tmp_other_fs,omitempty"`
	// CliUnpriv[i]: CLI process i runs as an ordinary user owning the working directory (root is exempt
	// from permission bits: what a report's file mode does to the next run only shows to such a user)
	CliUnpriv []bool `json:"cli_unpriv,omitempty"`
}

// ---- generator ----

// genCollisionModel is a template whose method full names collide when two of them are
// concatenated without a separator ("p.A.x"+"q.B.y" == "p.A.xq"+".B.y"): keys built that way
// must not merge different edges.
func genCollisionModel(t *tape.Tape) []MClass {
	names := [][3]string{{"p", "A", "x"}, {"p", "A", "xq"}, {"q", "B", "y"}, {"", "B", "y"}}
	model := []MClass{
		{NodeName: "A", Package: "p", Type: "Class", Functions: []MFunc{{Name: "x"}, {Name: "xq"}}},
		{NodeName: "B", Package: "q", Type: "Class", Functions: []MFunc{{Name: "y"}}},
		{NodeName: "B", Package: "", Type: "Class", Functions: []MFunc{{Name: "y"}}},
	}
	// the chain p.A.x -> q.B.y -> p.A.xq -> .B.y in a drawn rotation, plus a few drawn extra calls
	chain := [][2]int{{0, 2}, {2, 1}, {1, 3}}
	add := func(from, to int) {
		f, c := names[from], names[to]
		for ci := range model {
			if model[ci].Package == f[0] && model[ci].NodeName == f[1] {
				for fi := range model[ci].Functions {
					if model[ci].Functions[fi].Name == f[2] {
						model[ci].Functions[fi].FunctionCalls = append(model[ci].Functions[fi].FunctionCalls, MCall{Package: c[0], NodeName: c[1], FunctionName: c[2]})
					}
				}
			}
		}
	}
	for _, e := range chain {
		add(e[0], e[1])
	}
	for k := 0; k < t.Int(0, 3); k++ {
		add(t.Pick(4), t.Pick(4))
	}
	return model
}

// genScaleModel is a model of more than a thousand classes (size thresholds): a long chain of
// one-method classes with a few drawn extra calls.
func genScaleModel(t *tape.Tape) []MClass {
	n := t.Int(1001, 1150)
	switch t.Pick(4) {
	case 0:
		n = t.Int(2049, 2120) // around the next powers of two; class counts that are no multiple of 8 or 16
	case 1:
		n = t.Int(4097, 4110)
	}
	model := make([]MClass, n)
	for i := 0; i < n; i++ {
		model[i] = MClass{NodeName: fmt.Sprintf("K%04d", i), Package: "big", Type: "Class", Functions: []MFunc{{Name: "m0"}}}
	}
	for i := 0; i+1 < n; i++ {
		model[i].Functions[0].FunctionCalls = append(model[i].Functions[0].FunctionCalls, MCall{Package: "big", NodeName: fmt.Sprintf("K%04d", i+1), FunctionName: "m0"})
	}
	for k := 0; k < 6; k++ {
		a, b := t.Pick(n), t.Pick(n)
		model[a].Functions[0].FunctionCalls = append(model[a].Functions[0].FunctionCalls, MCall{Package: "big", NodeName: fmt.Sprintf("K%04d", b), FunctionName: "m0"})
	}
	return model
}

// genFanInModel has one utility method with 30..45 call sites in 25..40 callers (some call it twice),
// the callers being called from a few entry methods: counts around the usual small thresholds.
func genFanInModel(t *tape.Tape) []MClass {
	n := t.Int(25, 40)
	if t.Bool(1, 6) {
		n = []int{1030, 2060, 4100}[t.Pick(3)] + t.Pick(40) // a utility called from thousands of places
	}
	util := MClass{NodeName: "Util", Package: "fan", Type: "Class", Functions: []MFunc{{Name: "fmt"}}}
	entry := MClass{NodeName: "Entry", Package: "fan", Type: "Class", Functions: []MFunc{{Name: "main"}, {Name: "batch"}}}
	model := []MClass{util, entry}
	for i := 0; i < n; i++ {
		c := MClass{NodeName: fmt.Sprintf("W%02d", i), Package: "fan", Type: "Class", Functions: []MFunc{{Name: "run"}}}
		c.Functions[0].FunctionCalls = append(c.Functions[0].FunctionCalls, MCall{Package: "fan", NodeName: "Util", FunctionName: "fmt"})
		if t.Bool(1, 3) {
			c.Functions[0].FunctionCalls = append(c.Functions[0].FunctionCalls, MCall{Package: "fan", NodeName: "Util", FunctionName: "fmt"}) // a second call site
		}
		if i == 0 {
			// library callees whose full names collide with "fan.Util.fmt" under the usual 32-bit string
			// hashes (FNV-1a, FNV-1, CRC-32; found by search) and under Java's String.hashCode
			// ("fan.UtjM.fmt"): a name is its text, never its hash
			for _, x := range []string{"x57yn44", "x2kuolmy", "x37xxsva"} {
				c.Functions[0].FunctionCalls = append(c.Functions[0].FunctionCalls, MCall{Package: "ext.lib", NodeName: "Lib", FunctionName: x})
			}
			c.Functions[0].FunctionCalls = append(c.Functions[0].FunctionCalls, MCall{Package: "fan", NodeName: "UtjM", FunctionName: "fmt"})
		}
		model = append(model, c)
		e := t.Pick(2)
		model[1].Functions[e].FunctionCalls = append(model[1].Functions[e].FunctionCalls, MCall{Package: "fan", NodeName: c.NodeName, FunctionName: "run"})
	}
	return model
}

func genModel(t *tape.Tape, thorough bool) []MClass {
	if t.Bool(1, 60) {
		return genFanInModel(t)
	}
	if t.Bool(1, 16) {
		return genCollisionModel(t)
	}
	if t.Bool(1, 150) {
		return genScaleModel(t)
	}
	pkgs := []string{"p", "q.r", "com.x"}
	sameNameOdds := 5
	if t.Bool(1, 4) {
		pkgs = []string{"p", "", "com.x"} // some classes live in the default package
	} else if t.Bool(1, 5) {
		// project packages that merely look like library packages
		pkgs = [][]string{{"javabook.ch1", "javax.ext", "p"}, {"java.compat", "org.junit.rules", "sun.tools"}, {"kotlin.demo", "android.app", "lang"}}[t.Pick(3)]
	} else if t.Bool(1, 5) {
		// packages one of which ends in (or starts with) the other: whole names become suffixes and
		// prefixes of each other when class and method names repeat
		pkgs = [][]string{{"app.svc", "webapp.svc", "svc"}, {"data", "metadata", "data.meta"}}[t.Pick(2)]
		sameNameOdds = 2
	}
	clsNames := []string{"A", "B", "C", "D", "E", "F"}
	maxClasses, maxMethods := 4, 4
	if thorough {
		maxClasses, maxMethods = 6, 5
	}
	nc := t.Int(1, maxClasses)
	var model []MClass
	type decl struct{ pkg, cls, fn string }
	var decls []decl
	usedCls := map[string]bool{}
	for i := 0; i < nc; i++ {
		c := MClass{NodeName: clsNames[i], Package: pkgs[t.Pick(len(pkgs))], Type: "Class"}
		switch t.Pick(8) {
		case 0:
			c.Type = "Interface" // Java 8 interfaces have default methods with bodies and calls
		case 1:
			c.Type = ""
		}
		if i > 0 && t.Bool(1, sameNameOdds) {
			// the same simple class name again, in another package if possible
			c.NodeName = clsNames[t.Pick(i)]
		}
		if t.Bool(1, 20) {
			c.NodeName = c.NodeName + "\"q" // quoted names must be escaped in DOT
		}
		for k := 0; usedCls[c.Package+"."+c.NodeName] && k < len(pkgs); k++ {
			c.Package = pkgs[k]
		}
		if usedCls[c.Package+"."+c.NodeName] {
			c.NodeName = clsNames[i] + "Z"
		}
		usedCls[c.Package+"."+c.NodeName] = true
		nm := t.Int(0, maxMethods)
		for j := 0; j < nm; j++ {
			name := fmt.Sprintf("m%d", j)
			if t.Bool(1, 12) {
				name = fmt.Sprintf("m\"%d", j) // names containing quotes must be escaped in DOT
			}
			if t.Bool(1, 25) {
				// names that are keywords elsewhere are ordinary method names in a model
				name = []string{"new", "super", "this", "default", "init", "x", "r", "com", "p", "a->b", "m1", "m10", "a\\b", "t\tab", "nb\u00a0sp", "pct%s", "100%d", "\"gr\u00fc\u00df\"", "q\"\u4f60"}[t.Pick(19)] // keywords elsewhere; or equal to a package segment
				for _, f := range c.Functions {
					if f.Name == name {
						name = fmt.Sprintf("m%d", j)
					}
				}
			}
			if len(c.Functions) > 0 && t.Bool(1, 10) {
				name = c.Functions[len(c.Functions)-1].Name + "All" // save / saveAll: one full name a strict prefix of another
			}
			isCtor := false
			if j == 0 && t.Bool(1, 6) {
				name = c.NodeName // a constructor: function named like its class
				isCtor = true
			}
			for _, f := range c.Functions {
				if f.Name == name {
					name = fmt.Sprintf("u%d", j) // method full names are unique within a model
				}
			}
			c.Functions = append(c.Functions, MFunc{Name: name, IsConstructor: isCtor})
			decls = append(decls, decl{c.Package, c.NodeName, name})
		}
		if t.Bool(1, 20) {
			// two methods whose names differ only in letter case, one delegating to the other
			c.Functions = append(c.Functions, MFunc{Name: "getUrl"}, MFunc{Name: "getURL", FunctionCalls: []MCall{{Package: c.Package, NodeName: c.NodeName, FunctionName: "getUrl"}}})
			decls = append(decls, decl{c.Package, c.NodeName, "getUrl"}, decl{c.Package, c.NodeName, "getURL"})
		}
		model = append(model, c)
	}
	if len(decls) == 0 {
		model[0].Functions = append(model[0].Functions, MFunc{Name: "m0"})
		decls = append(decls, decl{model[0].Package, model[0].NodeName, "m0"})
	}
	// call sites
	density := t.Int(0, 3) // sparse .. dense
	shape := t.Pick(4)     // 0,1 random; 2 chain (long unfoldings with shared tails); 3 layered
	foreignCls := []string{"A", "B", "C", "D", "E", "F"}
	idx := 0
	positions := t.Bool(1, 3) // call sites carry positions (real models do), some of them coinciding
	line := 10
	for ci := range model {
		for fi := range model[ci].Functions {
			idx++
			n := 0
			switch density {
			case 0:
				n = t.Int(0, 1)
			case 1:
				n = t.Int(0, 2)
			case 2:
				n = t.Int(0, 3)
			default:
				n = t.Int(1, 4)
			}
			if t.Bool(1, 25) {
				n = t.Int(6, 10) // high fan-out: more direct callees than the whole expansion budget
			}
			if shape == 2 && idx < len(decls) {
				// chain edge to the next declared method: deep call trees that exceed the budget
				d := decls[idx]
				model[ci].Functions[fi].FunctionCalls = append(model[ci].Functions[fi].FunctionCalls, MCall{Package: d.pkg, NodeName: d.cls, FunctionName: d.fn})
				if n > 1 {
					n = 1
				}
			}
			for k := 0; k < n; k++ {
				var call MCall
				switch kind := t.Pick(13); {
				case kind <= 7: // declared method (cycles, self loops and parallel edges arise freely)
					var d decl
					if shape == 3 && idx < len(decls) {
						d = decls[idx+t.Pick(len(decls)-idx)] // only "later" methods: acyclic, layered
					} else {
						d = decls[t.Pick(len(decls))]
					}
					call = MCall{Package: d.pkg, NodeName: d.cls, FunctionName: d.fn}
				case kind == 8: // callee declared nowhere
					call = MCall{Package: "ext.lib", NodeName: "Lib", FunctionName: fmt.Sprintf("x%d", t.Pick(2))}
				case kind == 9: // call without receiver type: must never become an edge
					call = MCall{Package: model[ci].Package, NodeName: "", FunctionName: "helper"}
				case kind == 10: // object creation (no function name)
					d := decls[t.Pick(len(decls))]
					call = MCall{Package: d.pkg, NodeName: d.cls, FunctionName: ""}
				case kind == 11: // a method of the name pools that this model may not declare (another model may)
					call = MCall{Package: pkgs[t.Pick(len(pkgs))], NodeName: foreignCls[t.Pick(len(foreignCls))], FunctionName: fmt.Sprintf("m%d", t.Pick(4))}
				default: // same target again: parallel edge / repeated call site
					if len(model[ci].Functions[fi].FunctionCalls) > 0 {
						call = model[ci].Functions[fi].FunctionCalls[0]
					} else {
						d := decls[t.Pick(len(decls))]
						call = MCall{Package: d.pkg, NodeName: d.cls, FunctionName: d.fn}
					}
				}
				call.Type = []string{"", "", "lambda", "field", "self", "chain", "super", "same package", "CreatorClass"}[t.Pick(9)]
				if positions {
					calls := model[ci].Functions[fi].FunctionCalls
					if len(calls) > 0 && t.Bool(1, 3) {
						call.Position = calls[len(calls)-1].Position // same call-site position as the previous call
					} else {
						line++
						call.Position = MPos{StartLine: line, StartLinePosition: 8 + t.Pick(3)*4, StopLine: line, StopLinePosition: 30}
					}
				}
				model[ci].Functions[fi].FunctionCalls = append(model[ci].Functions[fi].FunctionCalls, call)
			}
		}
	}
	return model
}

func declaredMethods(model []MClass) []string {
	var out []string
	for _, c := range model {
		for _, f := range c.Functions {
			out = append(out, c.Package+"."+c.NodeName+"."+f.Name)
		}
	}
	return out
}

func pickRoot(t *tape.Tape, model []MClass) string {
	decl := declaredMethods(model)
	if len(model) > 20 && model[0].Package == "fan" && t.Bool(1, 2) {
		return "fan.Util.fmt" // the hub of the fan-in model
	}
	if len(model) > 1000 && t.Bool(1, 2) {
		// large models: the classes at the very end of the model (a remainder of any sharding)
		return decl[len(decl)-1-t.Pick(12)]
	}
	switch k := t.Pick(12); {
	case k == 9:
		return "no.Such.method" // absent root
	case k == 10:
		// a suffix of a declared name (class.method or the bare method name): not a method's full
		// name, so as absent as any other unknown root - however many declared names end in it
		d := decl[t.Pick(len(decl))]
		parts := strings.Split(d, ".")
		n := 1 + t.Pick(2)
		if n >= len(parts) {
			n = 1
		}
		return strings.Join(parts[len(parts)-n:], ".")
	default:
		return decl[t.Pick(len(decl))]
	}
}

func genCGScenario(t *tape.Tape, tier string) *CGScenario {
	thorough := tier == "thorough"
	sc := &CGScenario{}
	nm := t.Int(1, 2)
	for i := 0; i < nm; i++ {
		sc.Models = append(sc.Models, genModel(t, thorough))
	}
	np := t.Int(1, 2)
	maxOps := 5
	if thorough {
		maxOps = 7
	}
	for p := 0; p < np; p++ {
		proc := CGProc{Schedule: sim.Canonical()}
		if t.Bool(1, 4) {
			proc.Schedule = sim.Schedule{Tail: "seeded", Seed: t.Seed64()}
		} else {
			t.Seed64()
		}
		proc.Parallel = t.Bool(1, 6)
		nops := t.Int(1, maxOps)
		if t.Bool(1, 25) {
			nops = t.Int(15, 30) // a long-lived process: whatever accumulates per operation gets time to show
		}
		for o := 0; o < nops; o++ {
			mi := t.Pick(len(sc.Models))
			model := sc.Models[mi]
			op := CGOp{Model: mi, Reuse: t.Bool(1, 3)}
			switch k := t.Pick(10); {
			case k <= 3:
				op.Kind = "call"
				op.Root = pickRoot(t, model)
				op.Lookup = t.Bool(1, 3)
			case k <= 6:
				op.Kind = "rcall"
				op.Root = pickRoot(t, model)
			default:
				op.Kind = "callByFiles"
				na := t.Int(0, 6)
				if t.Bool(1, 25) {
					na = t.Int(32, 44) // many endpoints in one analysis
				}
				verbs := []string{"GET", "POST", "PUT", "DELETE"}
				for a := 0; a < na; a++ {
					c := model[t.Pick(len(model))]
					api := RestAPI{Uri: []string{"/u0", "/u1", "/u2", "/a%20b"}[t.Pick(4)], HttpMethod: verbs[t.Pick(4)], PackageName: c.Package, ClassName: c.NodeName}
					if len(c.Functions) > 0 && !t.Bool(1, 8) {
						api.MethodName = c.Functions[t.Pick(len(c.Functions))].Name
					} else {
						api.MethodName = "gone"
					}
					op.Apis = append(op.Apis, api)
				}
				if t.Bool(1, 3) {
					// DI: calls through class K are redirected to class V
					op.DI = map[string]string{}
					nd := t.Int(1, 3)
					for d := 0; d < nd; d++ {
						from := model[t.Pick(len(model))]
						to := model[t.Pick(len(model))]
						if t.Bool(1, 4) {
							to = from // identity entries are what coca's own BuildDIMap produces
						}
						op.DI[from.Package+"."+from.NodeName] = to.Package + "." + to.NodeName
					}
				}
			}
			proc.Ops = append(proc.Ops, op)
		}
		sc.Procs = append(sc.Procs, proc)
	}
	if t.Bool(1, 4) {
		ncp := t.Int(1, 3)
		for p := 0; p < ncp; p++ {
			var steps []CGCliStep
			ns := t.Int(1, 3)
			for k := 0; k < ns; k++ {
				mi := t.Pick(len(sc.Models))
				st := CGCliStep{Cmd: "call", Model: mi, Root: pickRoot(t, sc.Models[mi])}
				if t.Bool(1, 2) {
					st.Cmd = "rcall"
				} else {
					st.Lookup = t.Bool(1, 2)
					st.Sparse = t.Bool(1, 2)
				}
				if mi == 0 && t.Bool(1, 2) {
					st.UseDefault = true
					st.Sparse = false
				} else if t.Bool(1, 4) {
					st.ViaLink = true
					st.Sparse = false
				} else if t.Bool(1, 4) {
					st.ViaPipe = true
				} else if t.Bool(1, 5) {
					st.ViaTilde = true
					st.Sparse = false
				}
				if t.Bool(1, 300) {
					st.Padded = []int{17, 65}[t.Pick(2)]
				}
				if t.Bool(1, 6) {
					st.TornBefore = 1 + t.Pick(100)
					if t.Bool(1, 3) {
						st.TornBefore = 100 // cut to nothing
					}
					if len(steps) > 0 && t.Bool(1, 2) {
						// the interrupted command is simply run again
						torn := st.TornBefore
						st = steps[len(steps)-1]
						st.TornBefore = torn
					}
				}
				steps = append(steps, st)
			}
			sc.CliProcs = append(sc.CliProcs, steps)
			sc.CliTmpOtherFS = append(sc.CliTmpOtherFS, t.Bool(1, 3))
			sc.CliUnpriv = append(sc.CliUnpriv, t.Bool(1, 3))
		}
	}
	return sc
}

// sparseModel drops empty arrays from the JSON of a model.
func sparseModel(m []MClass) interface{} {
	var out []map[string]interface{}
	for _, c := range m {
		cm := map[string]interface{}{"NodeName": c.NodeName, "Package": c.Package, "Type": c.Type}
		var fs []map[string]interface{}
		for _, f := range c.Functions {
			fm := map[string]interface{}{"Name": f.Name}
			if f.IsConstructor {
				fm["IsConstructor"] = true
			}
			if len(f.FunctionCalls) > 0 {
				fm["FunctionCalls"] = f.FunctionCalls
			}
			fs = append(fs, fm)
		}
		if len(fs) > 0 {
			cm["Functions"] = fs
		}
		out = append(out, cm)
	}
	return out
}

// ---- reference model ----

type cgRef struct {
	callees  map[string][]string // method -> callee full names (calls with a receiver type), in order
	declared map[string]bool
}

func newRef(model []MClass) *cgRef {
	r := &cgRef{callees: map[string][]string{}, declared: map[string]bool{}}
	for _, c := range model {
		for _, f := range c.Functions {
			name := c.Package + "." + c.NodeName + "." + f.Name
			r.declared[name] = true
			var cs []string
			for _, call := range f.FunctionCalls {
				if call.NodeName != "" {
					cs = append(cs, call.full())
				}
			}
			r.callees[name] = cs
		}
	}
	return r
}

func lastDot(s string) (string, string) {
	i := strings.LastIndex(s, ".")
	if i < 0 {
		return "", s
	}
	return s[:i], s[i+1:]
}

// forward returns the relation after DI substitution of each callee's class.
func (r *cgRef) forward(di map[string]string) map[string][]string {
	out := map[string][]string{}
	for m, cs := range r.callees {
		for _, c := range cs {
			cls, fn := lastDot(c)
			if impl, ok := di[cls]; ok {
				c = impl + "." + fn
			}
			out[m] = append(out[m], c)
		}
	}
	return out
}

func reach(rel map[string][]string, root string) map[string]bool {
	seen := map[string]bool{root: true}
	stack := []string{root}
	for len(stack) > 0 {
		n := stack[len(stack)-1]
		stack = stack[:len(stack)-1]
		for _, c := range rel[n] {
			if !seen[c] {
				seen[c] = true
				stack = append(stack, c)
			}
		}
	}
	return seen
}

// unfoldingSize is the number of expansions of the call tree rooted at root
// (every occurrence of a method that has callees is expanded again); capped.
func unfoldingSize(rel map[string][]string, root string, cap int) int {
	n := 0
	var rec func(m string, depth int)
	rec = func(m string, depth int) {
		if n > cap || depth > cap+1 {
			n = cap + 1
			return
		}
		n++
		for _, c := range rel[m] {
			if len(rel[c]) > 0 {
				rec(c, depth+1)
				if n > cap {
					return
				}
			}
		}
	}
	rec(root, 0)
	return n
}

// reverse: callee -> callers, once per call site, declared callees only.
func (r *cgRef) reverse() map[string][]string {
	out := map[string][]string{}
	// iterate in model order for readability; compared as multisets anyway
	var ms []string
	for m := range r.callees {
		ms = append(ms, m)
	}
	sort.Strings(ms)
	for _, m := range ms {
		for _, c := range r.callees[m] {
			if r.declared[c] {
				out[c] = append(out[c], m)
			}
		}
	}
	return out
}

// the fixed expansion budget named by the property's anchor (counter bound 6 => 7 expansions)
const callBudget = 7

func edgeSet(es []Edge) map[Edge]bool {
	s := map[Edge]bool{}
	for _, e := range es {
		s[e] = true
	}
	return s
}

// checkForward judges a forward chain: edges of one root.
func checkForward(class string, edges []Edge, rel map[string][]string, root string, extraOK func(Edge) bool, add func(class, detail string)) {
	reachable := reach(rel, root)
	has := func(a, b string) bool {
		for _, c := range rel[a] {
			if c == b {
				return true
			}
		}
		return false
	}
	got := edgeSet(edges)
	for e := range got {
		if has(e.From, e.To) && reachable[e.From] {
			continue
		}
		if extraOK != nil && extraOK(e) {
			continue
		}
		if !has(e.From, e.To) {
			add(class+"/edge-not-a-recorded-call", fmt.Sprintf("edge %q -> %q is no call recorded in the model (root %q)", e.From, e.To, root))
		} else {
			add(class+"/edge-tail-unreachable", fmt.Sprintf("edge %q -> %q: tail is not reachable from root %q", e.From, e.To, root))
		}
	}
	for _, c := range rel[root] {
		if !got[Edge{root, c}] {
			add(class+"/direct-callee-missing", fmt.Sprintf("direct callee %q of root %q has no edge", c, root))
		}
	}
	if unfoldingSize(rel, root, callBudget) <= callBudget {
		want := map[Edge]bool{}
		for m := range reachable {
			for _, c := range rel[m] {
				want[Edge{m, c}] = true
			}
		}
		for e := range want {
			if !got[e] {
				add(class+"/within-budget-edge-missing", fmt.Sprintf("call tree of %q fits the expansion budget, but reachable call %q -> %q is missing", root, e.From, e.To))
			}
		}
	}
}

type cgRunner struct {
	id string
}

func writeJSON(path string, v interface{}) error {
	b, err := json.Marshal(v)
	if err != nil {
		return err
	}
	return os.WriteFile(path, b, 0644)
}

// runCG executes the scenario and evaluates the clauses of property id ("C03" or "C04").
func runCG(id string, ctx *sim.RunCtx, data json.RawMessage) (*sim.Outcome, error) {
	var sc CGScenario
	if err := json.Unmarshal(data, &sc); err != nil {
		return nil, sim.Harness("scenario: %v", err)
	}
	out := &sim.Outcome{Faults: map[string]int{}, Probes: map[string]int{}}
	out.ContentHash = hashJSON(sc)
	var modelPaths []string
	var refs []*cgRef
	for i, m := range sc.Models {
		p := filepath.Join(ctx.Dir, fmt.Sprintf("model%d.json", i))
		if err := writeJSON(p, m); err != nil {
			return nil, sim.Harness("%v", err)
		}
		modelPaths = append(modelPaths, p)
		refs = append(refs, newRef(m))
	}
	seen := map[string]bool{}
	add := func(class, detail string) {
		if seen[class+detail] {
			return
		}
		seen[class+detail] = true
		out.Violations = append(out.Violations, sim.Violation{Class: id + "/" + class, Detail: detail, Sig: map[string]string{"clause": class}})
	}
	judgeCall := func(where, dot string, ref *cgRef, root string, lookup bool) {
		edges, err := ParseSimpleDot(dot)
		if err != nil {
			add("call/malformed-dot", fmt.Sprintf("%s: %v\n%s", where, err, dot))
			return
		}
		rel := ref.forward(nil)
		rev := ref.reverse()
		// reverse part (lookup): edge caller->callee from the reverse map, callee is the root or one of its transitive callers
		anc := reach(rev, root)
		revOK := func(e Edge) bool {
			if !lookup {
				return false
			}
			for _, c := range rev[e.To] {
				if c == e.From {
					return anc[e.To]
				}
			}
			return false
		}
		if id == "C03" {
			if unfoldingSize(rel, root, callBudget) <= callBudget {
				out.Probes["call-tree-fits-budget"]++
			} else {
				out.Probes["call-tree-exceeds-budget"]++
			}
			checkForward("call", edges, rel, root, revOK, func(c, d string) { add(c, where+": "+d) })
		} else {
			// C04 judges the reverse part of `call -l`: every direct caller present
			got := edgeSet(edges)
			for _, caller := range rev[root] {
				if caller != root && !got[Edge{caller, root}] {
					add("call-lookup/direct-caller-missing", fmt.Sprintf("%s: direct caller %q of %q has no edge in `call -l`", where, caller, root))
				}
			}
		}
	}
	judgeRcall := func(where, dot string, m map[string][]string, ref *cgRef, root string) {
		rev := ref.reverse()
		// exact inverse, once per call site, declared methods only
		for k, callers := range m {
			if !ref.declared[k] {
				add("rcall/map-undeclared-key", fmt.Sprintf("%s: map key %q is not a method of the project", where, k))
			}
			for _, c := range callers {
				if !ref.declared[c] {
					add("rcall/map-undeclared-caller", fmt.Sprintf("%s: caller %q of %q is not a method of the project", where, c, k))
				}
			}
			if !sameMultiset(callers, rev[k]) {
				add("rcall/map-callers-differ", fmt.Sprintf("%s: callers of %q are %v, the model has %v", where, k, sorted(callers), sorted(rev[k])))
			}
		}
		for k := range rev {
			if _, ok := m[k]; !ok {
				add("rcall/map-key-missing", fmt.Sprintf("%s: %q is called by %v but is missing from the map", where, k, rev[k]))
			}
		}
		edges, err := ParseSimpleDot(dot)
		if err != nil {
			add("rcall/malformed-dot", fmt.Sprintf("%s: %v\n%s", where, err, dot))
			return
		}
		anc := reach(rev, root)
		got := edgeSet(edges)
		for e := range got {
			ok := false
			for _, c := range rev[e.To] {
				if c == e.From {
					ok = true
				}
			}
			if !ok {
				add("rcall/edge-not-in-map", fmt.Sprintf("%s: edge %q -> %q does not come from the reverse-call map (target %q)", where, e.From, e.To, root))
			} else if !anc[e.To] {
				add("rcall/edge-off-chain", fmt.Sprintf("%s: edge %q -> %q is on no caller chain ending at %q", where, e.From, e.To, root))
			}
		}
		for _, caller := range rev[root] {
			if caller != root && !got[Edge{caller, root}] {
				add("rcall/direct-caller-missing", fmt.Sprintf("%s: direct caller %q of target %q has no edge", where, caller, root))
			}
		}
		if len(rev[root]) > 0 {
			out.Probes["rcall-target-has-callers"]++
		}
		dup := map[string]int{}
		for _, c := range rev[root] {
			dup[c]++
			if dup[c] == 2 {
				out.Probes["rcall-caller-invokes-target-twice"]++
			}
		}
	}
	var hist []string
	judgedOnDirty := 0
	for pi, p := range sc.Procs {
		proc := &sim.Proc{Schedule: p.Schedule, Cwd: ctx.Dir, Parallel: p.Parallel}
		if p.Parallel {
			out.Faults["real-parallelism"]++
		}
		for _, op := range p.Ops {
			switch op.Kind {
			case "call":
				proc.Ops = append(proc.Ops, sim.Op{Op: "call", Args: map[string]interface{}{"root": op.Root, "model": modelPaths[op.Model], "lookup": op.Lookup, "reuse": op.Reuse}})
			case "rcall":
				proc.Ops = append(proc.Ops, sim.Op{Op: "rcall", Args: map[string]interface{}{"target": op.Root, "model": modelPaths[op.Model], "reuse": op.Reuse}})
			case "callByFiles":
				apis := op.Apis
				if apis == nil {
					apis = []RestAPI{}
				}
				proc.Ops = append(proc.Ops, sim.Op{Op: "callByFiles", Args: map[string]interface{}{"apis": apis, "model": modelPaths[op.Model], "di": op.DI, "reuse": op.Reuse}})
			default:
				return nil, sim.Harness("unknown op kind %q", op.Kind)
			}
			hist = append(hist, op.Kind)
		}
		hist = append(hist, "|")
		saved := ctx.ProcTimeout
		savedProcs := ctx.GoMaxProcs
		ctx.ProcTimeout = 20 * time.Second
		for _, op := range p.Ops {
			if len(op.Apis) >= 32 {
				// the only place where parallelism could matter: give the process real parallelism, so that
				// a tree under test that analyses many endpoints concurrently is not serialised by accident
				ctx.GoMaxProcs = 8
			}
		}
		res, err := ctx.Run(proc)
		ctx.ProcTimeout = saved
		ctx.GoMaxProcs = savedProcs
		if err != nil {
			return nil, err
		}
		if pi > 0 {
			out.Faults["restart"]++
		}
		if !p.Schedule.IsCanonical() && res.NonCanon > 0 {
			out.Faults["map-perm"] += res.NonCanon
		}
		out.ScheduleHashes = append(out.ScheduleHashes, res.EventHash)
		for oi, op := range p.Ops {
			judged := (id == "C03" && (op.Kind == "call" || op.Kind == "callByFiles")) || (id == "C04" && (op.Kind == "rcall" || (op.Kind == "call" && op.Lookup)))
			if !res.Completed(oi) {
				// the process ended inside op oi
				if judged {
					add(op.Kind+"/does-not-terminate", fmt.Sprintf("process %d op %d (%s root=%q): process ended with %q before the operation returned\n%s", pi, oi, op.Kind, op.Root, res.Ended, firstLines(res.Stderr, 6)))
				} else {
					out.Probes["unjudged-op-ended-process"]++
				}
				break
			}
			rec := res.Records[oi]
			if oi > 0 {
				out.Faults["no-restart"]++
			}
			if !rec.OK {
				if judged {
					add(op.Kind+"/panics", fmt.Sprintf("process %d op %d (%s root=%q) panicked: %s", pi, oi, op.Kind, op.Root, rec.Panic))
				}
				continue
			}
			if !judged {
				continue
			}
			ref := refs[op.Model]
			if oi > 0 && (op.Kind == "callByFiles" && len(op.Apis) > 0 || len(ref.callees[op.Root]) > 0 || len(ref.reverse()[op.Root]) > 0) {
				judgedOnDirty++
			}
			where := fmt.Sprintf("process %d op %d", pi, oi)
			switch op.Kind {
			case "call":
				var dot string
				if err := json.Unmarshal(rec.Result, &dot); err != nil {
					return nil, sim.Harness("call result: %v", err)
				}
				judgeCall(where, dot, ref, op.Root, op.Lookup)
			case "callByFiles":
				var r struct {
					Dot    string `json:"dot"`
					Counts []struct {
						HTTPMethod string
						URI        string
						Caller     string
						Size       int
					} `json:"counts"`
				}
				if err := json.Unmarshal(rec.Result, &r); err != nil {
					return nil, sim.Harness("callByFiles result: %v", err)
				}
				edges, err := ParseSimpleDot(r.Dot)
				if err != nil {
					add("callByFiles/malformed-dot", fmt.Sprintf("%s: %v\n%s", where, err, r.Dot))
					continue
				}
				if len(r.Counts) != len(op.Apis) {
					add("callByFiles/count-rows", fmt.Sprintf("%s: %d size rows for %d APIs", where, len(r.Counts), len(op.Apis)))
					continue
				}
				rel := ref.forward(op.DI)
				if len(op.DI) > 0 {
					out.Probes["di-map-used"]++
				}
				// split the edge list into per-API segments at the entry edges, in order
				pos := 0
				for ai, api := range op.Apis {
					entry := Edge{api.HttpMethod + " " + api.Uri, api.PackageName + "." + api.ClassName + "." + api.MethodName}
					if pos >= len(edges) || edges[pos] != entry {
						add("callByFiles/entry-edge-missing", fmt.Sprintf("%s: API %d: expected entry edge %q -> %q", where, ai, entry.From, entry.To))
						pos = len(edges)
						break
					}
					pos++
					startSeg := pos
					for pos < len(edges) && !strings.Contains(edges[pos].From, " ") {
						pos++
					}
					seg := edges[startSeg:pos]
					caller := entry.To
					if unfoldingSize(rel, caller, callBudget) <= callBudget {
						out.Probes["api-tree-fits-budget"]++
					} else {
						out.Probes["api-tree-exceeds-budget"]++
					}
					checkForward("callByFiles", seg, rel, caller, nil, func(c, d string) { add(c, fmt.Sprintf("%s API %d: %s", where, ai, d)) })
					if r.Counts[ai].Size != len(seg)+1 {
						add("callByFiles/size", fmt.Sprintf("%s API %d (%s): Size=%d but the chain has %d edges", where, ai, caller, r.Counts[ai].Size, len(seg)))
					}
					if r.Counts[ai].Caller != caller || r.Counts[ai].HTTPMethod != api.HttpMethod || r.Counts[ai].URI != api.Uri {
						add("callByFiles/row-identity", fmt.Sprintf("%s API %d: row %+v does not describe %+v", where, ai, r.Counts[ai], api))
					}
				}
				if pos != len(edges) {
					add("callByFiles/stray-edges", fmt.Sprintf("%s: %d edges after the last API's chain", where, len(edges)-pos))
				}
			case "rcall":
				var r struct {
					Dot       string              `json:"dot"`
					Map       map[string][]string `json:"map"`
					Callbacks int                 `json:"callbacks"`
				}
				if err := json.Unmarshal(rec.Result, &r); err != nil {
					return nil, sim.Harness("rcall result: %v", err)
				}
				if r.Callbacks != 1 {
					add("rcall/callback-count", fmt.Sprintf("%s: reverse-call map delivered %d times", where, r.Callbacks))
				}
				judgeRcall(where, r.Dot, r.Map, ref, op.Root)
			}
		}
	}
	// ---- the CLI route: shared working directory, durable coca_reporter/ ----
	if len(sc.CliProcs) > 0 {
		cwd := filepath.Join(ctx.Dir, "cli")
		os.MkdirAll(cwd, 0755)
		for i, m := range sc.Models {
			if err := writeJSON(filepath.Join(cwd, fmt.Sprintf("sparse%d.json", i)), sparseModel(m)); err != nil {
				return nil, sim.Harness("%v", err)
			}
			if err := writeJSON(filepath.Join(cwd, fmt.Sprintf("full%d.json", i)), m); err != nil {
				return nil, sim.Harness("%v", err)
			}
		}
		// model files reachable only through a symbolic link and ".."
		os.MkdirAll(filepath.Join(cwd, "sub", "deeper"), 0755)
		os.Symlink(filepath.Join("sub", "deeper"), filepath.Join(cwd, "link"))
		for i, m := range sc.Models {
			if err := writeJSON(filepath.Join(cwd, "sub", fmt.Sprintf("via%d.json", i)), m); err != nil {
				return nil, sim.Harness("%v", err)
			}
		}
		// the default dependence file exists before any command runs (as after `coca analysis`)
		os.MkdirAll(filepath.Join(cwd, "coca_reporter"), 0755)
		if err := writeJSON(filepath.Join(cwd, "coca_reporter", "deps.json"), sc.Models[0]); err != nil {
			return nil, sim.Harness("%v", err)
		}
		steps := 0
		for pi, st := range sc.CliProcs {
			proc := &sim.Proc{Schedule: sim.Canonical(), Cwd: cwd}
			if pi < len(sc.CliTmpOtherFS) && sc.CliTmpOtherFS[pi] {
				proc.TmpOtherFS = true
				out.Faults["tmpdir-on-other-fs"]++
			}
			if pi < len(sc.CliUnpriv) && sc.CliUnpriv[pi] {
				proc.Unprivileged = true
				out.Faults["unprivileged-user"]++
			}
			var opIndex []int // record index of each step's command
			for _, s := range st {
				if s.TornBefore > 0 {
					proc.Ops = append(proc.Ops, sim.Op{Op: "tear", Args: map[string]interface{}{"dir": "coca_reporter", "percent": s.TornBefore % 100, "keep": []string{"deps.json"}, "tmp": []string{"call.dot", "rcall.dot", "rcallmap.json"}}})
					out.Faults["reports-torn-by-interrupted-run"]++
				}
				file := fmt.Sprintf("full%d.json", s.Model)
				if s.Sparse && s.Cmd == "call" {
					file = fmt.Sprintf("sparse%d.json", s.Model)
				}
				if s.ViaLink {
					file = fmt.Sprintf("link/../via%d.json", s.Model)
					out.Faults["path-through-symlink-and-dotdot"]++
				}
				if s.ViaTilde && !s.UseDefault && !s.ViaLink {
					tf := filepath.Join("~old", file)
					if raw, err := os.ReadFile(filepath.Join(cwd, file)); err == nil {
						os.MkdirAll(filepath.Join(cwd, "~old"), 0755)
						if os.WriteFile(filepath.Join(cwd, tf), raw, 0644) == nil {
							file = tf
							out.Faults["model-path-starts-with-tilde"]++
						}
					}
				}
				if s.Padded > 0 && !s.UseDefault && !s.ViaLink {
					padded := fmt.Sprintf("padded%d_%d.json", s.Model, s.Padded)
					if _, err := os.Stat(filepath.Join(cwd, padded)); err != nil {
						if raw, err := os.ReadFile(filepath.Join(cwd, file)); err == nil {
							// every key the other classes carry is present (a decoder that reuses a long-lived variable keeps what a missing key leaves untouched)
							pad := `[{"NodeName":"Pad","Package":"pad","Type":"Class","Functions":null,"FilePath":"` + strings.Repeat("p", s.Padded<<20) + `"},`
							os.WriteFile(filepath.Join(cwd, padded), append([]byte(pad), bytes.TrimLeft(raw, " \t\r\n")[1:]...), 0644)
						}
					}
					if _, err := os.Stat(filepath.Join(cwd, padded)); err == nil {
						file = padded
						out.Faults["model-file-of-tens-of-MiB"]++
					}
				}
				var fifo interface{}
				if s.ViaPipe && !s.UseDefault && !s.ViaLink {
					from := file
					file = fmt.Sprintf("model%d.pipe", len(proc.Ops))
					fifo = map[string]string{"path": file, "from": from}
					out.Faults["model-file-is-a-pipe"]++
				}
				hist = append(hist, "cli-"+s.Cmd)
				opIndex = append(opIndex, len(proc.Ops))
				if s.Cmd == "call" {
					// every flag is given explicitly: cobra keeps flag values between in-process runs
					args := []string{"call", "-c", s.Root, "-d", file, fmt.Sprintf("-l=%v", s.Lookup), "-r", ""}
					if s.UseDefault {
						args = []string{"call", "-c", s.Root, "-d", "coca_reporter/deps.json", fmt.Sprintf("-l=%v", s.Lookup), "-r", ""}
					}
					proc.Ops = append(proc.Ops, sim.Op{Op: "cli", Args: map[string]interface{}{"args": args, "read": []string{"coca_reporter/call.dot"}, "fifo": fifo}})
				} else {
					args := []string{"rcall", "-c", s.Root, "-d", file, "-r", ""}
					if s.UseDefault {
						args = []string{"rcall", "-c", s.Root, "-d", "coca_reporter/deps.json", "-r", ""}
					}
					proc.Ops = append(proc.Ops, sim.Op{Op: "cli", Args: map[string]interface{}{"args": args, "read": []string{"coca_reporter/rcall.dot", "coca_reporter/rcallmap.json"}, "fifo": fifo}})
				}
			}
			hist = append(hist, "|")
			saved := ctx.ProcTimeout
			ctx.ProcTimeout = 30 * time.Second
			res, err := ctx.Run(proc)
			ctx.ProcTimeout = saved
			if err != nil {
				return nil, err
			}
			if pi > 0 {
				out.Faults["restart"]++
			}
			for si, s := range st {
				judged := (id == "C03" && s.Cmd == "call") || (id == "C04" && (s.Cmd == "rcall" || s.Lookup))
				where := fmt.Sprintf("CLI process %d step %d (`coca %s -c %s`, %d earlier commands left reports in this directory)", pi, si, s.Cmd, s.Root, steps)
				steps++
				if !res.Completed(opIndex[si]) {
					if judged {
						add("cli-"+s.Cmd+"/does-not-terminate", fmt.Sprintf("%s: process ended with %q\n%s", where, res.Ended, firstLines(res.Stderr, 6)))
					}
					break
				}
				rec := res.Records[opIndex[si]]
				if si > 0 {
					out.Faults["no-restart"]++
				}
				out.Faults["durable-reports-carried-over"]++
				if !rec.OK {
					if judged {
						add("cli-"+s.Cmd+"/panics", fmt.Sprintf("%s panicked: %s", where, rec.Panic))
					}
					continue
				}
				if !judged {
					continue
				}
				var r struct {
					Files map[string]string `json:"files"`
				}
				if err := json.Unmarshal(rec.Result, &r); err != nil {
					return nil, sim.Harness("cli result: %v", err)
				}
				ref := refs[s.Model]
				out.Probes["cli-step-judged"]++
				if s.Cmd == "call" {
					dot, ok := r.Files["coca_reporter/call.dot"]
					if !ok {
						add("cli-call/no-report", where+": coca_reporter/call.dot was not written")
						continue
					}
					judgeCall(where, dot, ref, s.Root, s.Lookup)
				} else {
					dot, ok := r.Files["coca_reporter/rcall.dot"]
					mj, ok2 := r.Files["coca_reporter/rcallmap.json"]
					if !ok || !ok2 {
						add("cli-rcall/no-report", where+": rcall.dot or rcallmap.json was not written")
						continue
					}
					var m map[string][]string
					if err := json.Unmarshal([]byte(mj), &m); err != nil {
						add("cli-rcall/rcallmap-unreadable", fmt.Sprintf("%s: rcallmap.json: %v", where, err))
						continue
					}
					judgeRcall(where, dot, m, ref, s.Root)
				}
			}
		}
	}
	out.HistoryHash = hashJSON(hist)
	out.NonTrivial = judgedOnDirty > 0
	out.Sample = map[string]interface{}{"models": sc.Models, "processes": sc.Procs}
	return out, nil
}

func firstLines(s string, n int) string {
	ls := strings.Split(s, "\n")
	if len(ls) > n {
		ls = ls[:n]
	}
	return strings.Join(ls, "\n")
}

func sorted(s []string) []string {
	c := append([]string(nil), s...)
	sort.Strings(c)
	return c
}

func sameMultiset(a, b []string) bool {
	if len(a) != len(b) {
		return false
	}
	x, y := sorted(a), sorted(b)
	for i := range x {
		if x[i] != y[i] {
			return false
		}
	}
	return true
}

// ---- C03 ----

type C03 struct{}

func (C03) ID() string { return "C03" }
func (C03) Rule() string {
	return "a scenario = 1-2 generated call models (random / chain / layered / concatenation-collision shapes; cyclic, self-recursive, parallel edges, unresolved and foreign callees, receiver-less calls, creations, interfaces, constructors, default package, odd, case-variant and quoted names) and 1-2 simulated processes each executing 1-7 call / callByFiles / rcall operations in one OS process (process boundary = restart; a third of the operations decode the model into the process's long-lived model variable), plus, in a quarter of the scenarios, 1-3 processes of `coca call` / `coca rcall` command lines sharing one working directory whose reports persist; every call/callByFiles result and call.dot is judged against the reference call relation. Non-trivial = at least one judged operation whose root has callees ran on a process that had already executed another graph operation; distinct = by content hash of the scenario."
}
func (C03) Budget(tier string) (int, time.Duration) {
	if tier == "thorough" {
		return 400000, 25 * time.Minute
	}
	return 16000, 4 * time.Minute
}
func (C03) Generate(t *tape.Tape, tier string) interface{} { return genCGScenario(t, tier) }
func (C03) Run(ctx *sim.RunCtx, data json.RawMessage) (*sim.Outcome, error) {
	return runCG("C03", ctx, data)
}
func (C03) Components() ([]string, []string) {
	return []string{"pkg/application/call (with seam S1)", "pkg/application/rcall", "pkg/domain/core_domain", "pkg/domain/api_domain", "pkg/infrastructure/jpackage", "encoding/json model loading as cmd/call.go and cmd/api.go do"}, []string{}
}
func (C03) Assumptions() []string {
	return []string{
		"models are drawn with unique method full names (overloaded roots are left open by the property text)",
		"the fixed expansion budget is 7 expansions (counter bound 6), as the property's anchor states",
		"`Size` is compared with the edges of the chain below the API's handler, i.e. excluding the entry edge, plus one",
	}
}

// ---- C04 ----

type C04 struct{}

func (C04) ID() string { return "C04" }
func (C04) Rule() string {
	return "same scenario space as C03; every rcall result (callback map and DOT) and the reverse part of every `call -l` result is judged against the reference inverse relation. Non-trivial = at least one judged operation whose target has callers/callees ran on a process that had already executed another graph operation; distinct = by content hash."
}
func (C04) Budget(tier string) (int, time.Duration) {
	if tier == "thorough" {
		return 400000, 25 * time.Minute
	}
	return 16000, 4 * time.Minute
}
func (C04) Generate(t *tape.Tape, tier string) interface{} { return genCGScenario(t, tier) }
func (C04) Run(ctx *sim.RunCtx, data json.RawMessage) (*sim.Outcome, error) {
	return runCG("C04", ctx, data)
}
func (C04) Components() ([]string, []string) {
	return []string{"pkg/application/rcall (with seam S1)", "pkg/application/call", "pkg/domain/core_domain"}, []string{}
}
func (C04) Assumptions() []string {
	return []string{"models are drawn with unique method full names", "self-calls of the target are not required as edges (the property exempts the target itself)"}
}
