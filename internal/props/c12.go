package props

import (
	"encoding/json"
	"fmt"
	"os"
	"path/filepath"
	"sort"
	"strings"
	"time"

	"verif/internal/gen"
	"verif/internal/sim"
	"verif/internal/tape"
)

type C12Scenario struct {
	// CwdIgnore: the working directory of every process (never the analysed directory itself) holds
	// a .gitignore whose anchored patterns name the top-level package directories
	CwdIgnore bool         `json:"cwd_ignore,omitempty"`
	Files     []*gen.JFile `json:"files"`
	Procs     []C07Proc    `json:"procs"` // passes: api (judged), ident/full/bs (predecessor noise)
	// CliHistory: the CLI route in ONE working directory whose coca_reporter/ persists: for each
	// step a sub-project (file subset) is analysed (`coca analysis -p`) and scanned (`coca api -p -f`),
	// every command in its own process; reports left by earlier steps must not leak into later ones
	CliHistory [][]int `json:"cli_history,omitempty"`
	// CliTmpOtherFS: the CLI processes run with $TMPDIR on another file system
	CliTmpOtherFS bool `json:"cli_tmp_other_fs,omitempty"`
	// CliUnpriv: the CLI processes run as an ordinary user owning the working directory
	CliUnpriv bool `json:"cli_unpriv,omitempty"`
	// CliEdit[k]: step k does not analyse again: the sources of step k-1 are edited in place (the
	// files listed in CliStripped[k-1], which were plain classes there, get their controller
	// annotations) and only `coca api -f -c` runs, on a deps.json that predates the edit
	CliEdit     []bool  `json:"cli_edit,omitempty"`
	CliStripped [][]int `json:"cli_stripped,omitempty"`
	// CliFlags[k]: how step k spells `coca api`: 0 `-f -c`, 1 `-f -c -s`, 2 `-f`, 3 `-f -s`, 4 `-f -c -a <first 4 bytes of the first URI>` (the list
	// and the csv rows are the same collection under every spelling)
	CliFlags []int `json:"cli_flags,omitempty"`
	// CliTorn[k] > 0: before step k the reports left in coca_reporter/ are cut to CliTorn[k] percent of
	// their length (0 bytes for 100): what a command interrupted in the middle of its writes leaves
	CliTorn []int `json:"cli_torn,omitempty"`
}

type C12 struct{}

func (C12) ID() string { return "C12" }
func (C12) Rule() string {
	return "a scenario = a generated project of 1-6 classes (controllers with @RestController/@Controller, class-level mapping absent / shorthand / value=, handlers in shorthand, no-argument, value=+method= forms, @RequestBody and @PathVariable parameters, non-handler methods interleaved also before the first handler; plain classes carrying mapping annotations; interfaces) with the handler table known by construction, and 1-3 simulated processes each executing 2-7 passes: the API scan over seeded permutations, subsets and duplications of the files, other passes in between; every API list is compared (as a multiset of verb, URI, body type, package, class, method) with the ground truth of exactly the files delivered. Non-trivial = the project has >=2 controllers with different base paths or a controller next to a non-controller, and an API scan ran over >=2 files or as a later operation of its process; distinct = by content hash."
}
func (C12) Budget(tier string) (int, time.Duration) {
	if tier == "thorough" {
		return 10000, 25 * time.Minute
	}
	return 1000, 4 * time.Minute
}

func (C12) Generate(t *tape.Tape, tier string) interface{} {
	thorough := tier == "thorough"
	o := gen.Options{MinFiles: 1, MaxFiles: 5, Controllers: true, Interfaces: true}
	if thorough {
		o.MaxFiles = 6
	}
	o.Anonymous = t.Bool(1, 3)
	o.Lambdas = t.Bool(1, 3)
	if t.Bool(1, 60) {
		o.MinFiles, o.MaxFiles = 40, 120 // a large project: whatever depends on the number of files or handlers
	}
	huge := t.Bool(1, 600)
	if huge {
		o.MinFiles, o.MaxFiles = 8193, 8400 // beyond 8192 files: one scan of the whole project, nothing else
	}
	p := gen.GenProject(t, o)
	sc := &C12Scenario{Files: p.Files}
	if huge {
		all := make([]int, len(p.Files))
		for i := range all {
			all[i] = i
		}
		sc.Procs = []C07Proc{{Schedule: sim.Canonical(), Ops: []C07Op{{Pass: "api", Files: all}}}}
		sc.CwdIgnore = t.Bool(1, 3)
		return sc
	}
	sc.Procs = genHistory(t, len(p.Files), thorough, []string{"api", "api", "api", "api", "ident", "full", "bs"})
	if t.Bool(1, 2) {
		steps := t.Int(2, 3)
		for k := 0; k < steps; k++ {
			var sub []int
			for _, fi := range t.Perm(len(p.Files)) {
				if len(p.Files) > 1 && t.Bool(1, 3) {
					continue
				}
				sub = append(sub, fi)
			}
			if len(sub) == 0 {
				sub = []int{0}
			}
			sc.CliHistory = append(sc.CliHistory, sub)
			sc.CliEdit = append(sc.CliEdit, false)
			sc.CliStripped = append(sc.CliStripped, nil)
			if k > 0 && t.Bool(1, 2) {
				// edit step: same sources as the step before, some of which were plain classes there
				prev := sc.CliHistory[k-1]
				sc.CliHistory[k] = prev
				sc.CliEdit[k] = true
				for _, fi := range prev {
					if len(p.Files[fi].Apis) > 0 && t.Bool(1, 2) {
						sc.CliStripped[k-1] = append(sc.CliStripped[k-1], fi)
					}
				}
			}
		}
		sc.CliTmpOtherFS = t.Bool(1, 3)
	}
	sc.CwdIgnore = t.Bool(1, 3)
	sc.CliUnpriv = t.Bool(1, 4)
	for range sc.CliHistory {
		sc.CliFlags = append(sc.CliFlags, t.Pick(5))
		torn := 0
		if t.Bool(1, 4) {
			torn = 1 + t.Pick(100)
			if t.Bool(1, 3) {
				torn = 100 // cut to nothing
			}
		}
		sc.CliTorn = append(sc.CliTorn, torn)
	}
	return sc
}

func (C12) Components() ([]string, []string) {
	return []string{"ast_api_java listener", "application/api JavaApiApp.AnalysisPath", "ANTLR Java parser", "cocafile directory walk (real files)", "identifier / full / bad-smell passes as predecessor operations"}, []string{}
}
func (C12) Assumptions() []string {
	return []string{
		"not generated because the property does not settle them: a verb-less method-level @RequestMapping(\"/x\"), class-level @RequestMapping without arguments",
		"MethodParams and ResponseStatus of an entry are not compared (the property does not mention them)",
	}
}

func apiKey(verb, uri, body, pkg, cls, method string) string {
	return fmt.Sprintf("%s %s body=%s %s.%s.%s", verb, uri, body, pkg, cls, method)
}

func (C12) Run(ctx *sim.RunCtx, data json.RawMessage) (*sim.Outcome, error) {
	var sc C12Scenario
	if err := json.Unmarshal(data, &sc); err != nil {
		return nil, sim.Harness("scenario: %v", err)
	}
	out := &sim.Outcome{Faults: map[string]int{}, Probes: map[string]int{}}
	if sc.CwdIgnore {
		os.WriteFile(filepath.Join(ctx.Dir, ".gitignore"), []byte(cwdIgnoreText), 0644)
		out.Faults["working-directory-holds-gitignore"]++
	}
	out.ContentHash = hashJSON(sc)
	c7 := &C07Scenario{}
	for _, f := range sc.Files {
		c7.Files = append(c7.Files, SrcFile{ID: f.ID, Path: f.Path, Text: f.Text})
	}
	r := &c07run{ctx: ctx, sc: c7, out: out, paths: map[string]string{}}
	n := len(sc.Files)
	if n > 1000 {
		ctx.ProcTimeout = 15 * time.Minute // thousands of files per pass
	}
	// the identifier set and model handed to the API scan: computed once for the whole project
	allDir := r.newDir()
	for i := range sc.Files {
		if _, err := r.place(allDir, i, i); err != nil {
			return nil, sim.Harness("%v", err)
		}
	}
	identFile := filepath.Join(ctx.Dir, "ident.json")
	depsFile := filepath.Join(ctx.Dir, "deps.json")
	res, err := ctx.Run(&sim.Proc{Schedule: sim.Canonical(), Cwd: ctx.Dir, Ops: []sim.Op{{Op: "identDir", Args: map[string]interface{}{"dir": allDir}}}})
	if err != nil {
		return nil, err
	}
	if !res.Completed(0) || !res.Records[0].OK {
		out.Skipped = "identifier pass fails on the generated project (C09's subject)"
		return out, nil
	}
	os.WriteFile(identFile, res.Records[0].Result, 0644)
	res, err = ctx.Run(&sim.Proc{Schedule: sim.Canonical(), Cwd: ctx.Dir, Ops: []sim.Op{{Op: "fullDir", Args: map[string]interface{}{"dir": allDir, "ident": identFile}}}})
	if err != nil {
		return nil, err
	}
	if !res.Completed(0) || !res.Records[0].OK {
		out.Skipped = "full pass fails on the generated project (C09's subject)"
		return out, nil
	}
	os.WriteFile(depsFile, res.Records[0].Result, 0644)

	// features of the project
	bases := map[string]bool{}
	controllers, plain := 0, 0
	for _, f := range sc.Files {
		isCtl := false
		base := ""
		for _, a := range f.Annotations {
			if a == "@RestController" || a == "@Controller" {
				isCtl = true
			}
			if strings.HasPrefix(a, "@RequestMapping") {
				base = a
			}
		}
		if isCtl {
			controllers++
			bases[base] = true
		} else {
			plain++
		}
	}
	bait := len(bases) >= 2 || (controllers >= 1 && plain >= 1)

	seen := map[string]bool{}
	add := func(class, detail string, sig map[string]string) {
		if seen[class] {
			return
		}
		seen[class] = true
		out.Violations = append(out.Violations, sim.Violation{Class: "C12/" + class, Detail: detail, Sig: sig})
	}
	exercised := false
	var hist []string
	for pi, p := range sc.Procs {
		proc := &sim.Proc{Schedule: p.Schedule, Cwd: ctx.Dir, Parallel: p.Parallel}
		if p.Parallel {
			out.Faults["real-parallelism"]++
		}
		var delivered [][]int
		for _, op := range p.Ops {
			var files []int
			for _, fi := range op.Files {
				if fi < n {
					files = append(files, fi)
				}
			}
			delivered = append(delivered, files)
			hist = append(hist, fmt.Sprintf("%s%d", op.Pass, len(files)))
			r.dirName = op.DirName
			dir := r.newDir()
			r.dirName = 0
			var paths []string
			r.symlinks = op.Symlinks
			for pos, fi := range files {
				pth, err := r.place(dir, pos, fi)
				if err != nil {
					return nil, sim.Harness("%v", err)
				}
				paths = append(paths, pth)
			}
			r.symlinks = false
			if paths == nil {
				paths = []string{}
			}
			if op.Noise > 0 && (op.Pass == "api" || op.Pass == "bs") {
				r.addNoise(dir, len(files), op.Noise)
			}
			switch op.Pass {
			case "api":
				proc.Ops = append(proc.Ops, sim.Op{Op: "api", Args: map[string]interface{}{"dir": r.argForm(dir, op.ArgForm), "deps": depsFile, "ident": identFile}})
			case "ident":
				proc.Ops = append(proc.Ops, sim.Op{Op: "ident", Args: map[string]interface{}{"files": paths}})
			case "full":
				proc.Ops = append(proc.Ops, sim.Op{Op: "full", Args: map[string]interface{}{"ident": identFile, "files": paths}})
			case "bs":
				proc.Ops = append(proc.Ops, sim.Op{Op: "bs", Args: map[string]interface{}{"dir": dir}})
			default:
				return nil, sim.Harness("unknown pass %q", op.Pass)
			}
		}
		hist = append(hist, "|")
		saved := ctx.ProcTimeout
		if n <= 1000 {
			ctx.ProcTimeout = 60 * time.Second
		}
		res, err := ctx.Run(proc)
		ctx.ProcTimeout = saved
		if err != nil {
			return nil, err
		}
		if pi > 0 {
			out.Faults["restart"]++
		}
		if res.NonCanon > 0 {
			out.Faults["map-perm"] += res.NonCanon
		}
		out.ScheduleHashes = append(out.ScheduleHashes, res.EventHash)
		for oi, op := range p.Ops {
			where := fmt.Sprintf("process %d op %d (%s)", pi, oi, op.Pass)
			if !res.Completed(oi) {
				if op.Pass == "api" {
					add("api/process-ended", fmt.Sprintf("%s: process ended with %q\n%s", where, res.Ended, firstLines(res.Stderr, 6)), map[string]string{"clause": "process-ended"})
				}
				break
			}
			rec := res.Records[oi]
			files := delivered[oi]
			if oi > 0 {
				out.Faults["no-restart"]++
			}
			if op.Pass != "api" {
				continue
			}
			inOrder := true
			dups := map[int]int{}
			for k := range files {
				if k > 0 && files[k] < files[k-1] {
					inOrder = false
				}
				dups[files[k]]++
			}
			if !inOrder {
				out.Faults["reorder"]++
			}
			if len(dups) < n {
				out.Faults["drop"]++
			}
			if len(dups) < len(files) {
				out.Faults["dup"]++
			}
			if len(files) >= 2 || oi > 0 {
				exercised = true
			}
			if !rec.OK {
				add("api/panics", fmt.Sprintf("%s panicked: %s", where, rec.Panic), map[string]string{"clause": "panics"})
				continue
			}
			var got []struct {
				Uri, HttpMethod, MethodName, RequestBodyClass, PackageName, ClassName string
			}
			if err := json.Unmarshal(rec.Result, &got); err != nil {
				return nil, sim.Harness("api result: %v", err)
			}
			var gotKeys, wantKeys []string
			for _, g := range got {
				gotKeys = append(gotKeys, apiKey(g.HttpMethod, g.Uri, g.RequestBodyClass, g.PackageName, g.ClassName, g.MethodName))
			}
			for _, fi := range files {
				for _, a := range sc.Files[fi].Apis {
					wantKeys = append(wantKeys, apiKey(a.Verb, a.Uri, a.Body, a.Pkg, a.Class, a.Method))
				}
			}
			if len(wantKeys) > 0 {
				out.Probes["scan-with-handlers"]++
			}
			sort.Strings(gotKeys)
			sort.Strings(wantKeys)
			if strings.Join(gotKeys, "\n") != strings.Join(wantKeys, "\n") {
				extra, missing := diffMultiset(gotKeys, wantKeys)
				class := "api/list-differs"
				switch {
				case len(extra) > 0 && len(missing) > 0:
					class += "/entry-wrong"
				case len(extra) > 0:
					class += "/entry-extra"
				default:
					class += "/entry-missing"
				}
				var names []string
				for _, fi := range files {
					names = append(names, sc.Files[fi].ID+":"+sc.Files[fi].Name)
				}
				add(class, fmt.Sprintf("%s over files %v:\n unexpected: %v\n missing:    %v", where, names, extra, missing), map[string]string{"clause": class})
			}
		}
	}
	// ---- the CLI route with durable reports ----
	if len(sc.CliHistory) > 0 {
		cwd := filepath.Join(ctx.Dir, "cli")
		os.MkdirAll(cwd, 0755)
		if sc.CwdIgnore {
			os.WriteFile(filepath.Join(cwd, ".gitignore"), []byte(cwdIgnoreText), 0644)
		}
		for k, sub := range sc.CliHistory {
			src := fmt.Sprintf("src%d", k)
			edit := k < len(sc.CliEdit) && sc.CliEdit[k] && k > 0
			if edit {
				src = fmt.Sprintf("src%d", k-1) // the same directory, edited in place
				out.Faults["source-edited-after-analysis"]++
			}
			stripped := map[int]bool{}
			if k < len(sc.CliStripped) {
				for _, fi := range sc.CliStripped[k] {
					stripped[fi] = true
				}
			}
			var want []string
			var wantRows []string
			var wantUris []string
			for pos, fi := range sub {
				if fi >= n {
					continue
				}
				f := sc.Files[fi]
				p := filepath.Join(cwd, src, fmt.Sprintf("%02d", pos), filepath.FromSlash(f.Path))
				os.MkdirAll(filepath.Dir(p), 0755)
				text := f.Text
				if stripped[fi] {
					text = stripControllerAnnotations(text)
				}
				os.WriteFile(p, []byte(materialiseLegacy(text)), 0644)
				if stripped[fi] {
					continue // a plain class here: contributes nothing
				}
				for _, a := range f.Apis {
					want = append(want, apiKey(a.Verb, a.Uri, a.Body, a.Pkg, a.Class, a.Method))
					wantRows = append(wantRows, fmt.Sprintf("%s %s %s.%s.%s", a.Verb, a.Uri, a.Pkg, a.Class, a.Method))
					wantUris = append(wantUris, a.Uri)
				}
			}
			if k > 0 && !edit && k < len(sc.CliTorn) && sc.CliTorn[k] > 0 {
				// the previous command was interrupted while writing: its reports are torn
				if ents, err := os.ReadDir(filepath.Join(cwd, "coca_reporter")); err == nil {
					for _, e := range ents {
						p := filepath.Join(cwd, "coca_reporter", e.Name())
						if b, err := os.ReadFile(p); err == nil && !e.IsDir() && !strings.HasSuffix(e.Name(), ".tmp") {
							keep := len(b) * (sc.CliTorn[k] % 100) / 100
							os.WriteFile(p, b[:keep], 0644)
						}
					}
					plantTmp(filepath.Join(cwd, "coca_reporter"), []string{"deps.json", "identify.json", "apis.json", "api.csv", "api.dot"})
					out.Faults["reports-torn-by-interrupted-run"]++
				}
			}
			hist = append(hist, fmt.Sprintf("cli%d", len(sub)))
			out.Faults["durable-reports-carried-over"]++
			ended := ""
			apiArgs := []string{"api", "-p", src, "-f", "-c"}
			if k < len(sc.CliFlags) {
				apiArgs = append([]string{"api", "-p", src}, [][]string{{"-f", "-c"}, {"-f", "-c", "-s"}, {"-f"}, {"-f", "-s"}, {"-f", "-c"}}[sc.CliFlags[k]%5]...)
				if sc.CliFlags[k]%5 == 4 && len(wantUris) > 0 {
					// -a <prefix>: api.csv lists the handlers whose URI starts with the prefix (apis.json stays complete)
					prefix := wantUris[0]
					if len(prefix) > 4 {
						prefix = prefix[:4]
					}
					apiArgs = append(apiArgs, "-a", prefix)
					var kept []string
					for i, u := range wantUris {
						if strings.HasPrefix(u, prefix) {
							kept = append(kept, wantRows[i])
						}
					}
					wantRows = kept
					out.Probes["cli-aggregate-prefix"]++
				}
			}
			cmdLines := [][]string{{"analysis", "-p", src}, apiArgs}
			if edit {
				cmdLines = cmdLines[1:]
			}
			for _, args := range cmdLines {
				res, err := ctx.Run(&sim.Proc{Schedule: sim.Canonical(), Cwd: cwd, TmpOtherFS: sc.CliTmpOtherFS, Unprivileged: sc.CliUnpriv, Ops: []sim.Op{{Op: "cli", Args: map[string]interface{}{"args": args}}}})
				if err != nil {
					return nil, err
				}
				out.Faults["restart"]++
				if sc.CliTmpOtherFS {
					out.Faults["tmpdir-on-other-fs"]++
				}
				if sc.CliUnpriv {
					out.Faults["unprivileged-user"]++
				}
				if !res.Completed(0) || !res.Records[0].OK {
					ended = args[0]
					break
				}
			}
			if ended != "" {
				// `coca api` calls log.Fatal when deps.json is missing; not this property's subject
				out.Probes["cli-step-ended:"+ended]++
				continue
			}
			where := fmt.Sprintf("CLI step %d (`coca analysis -p %s; coca api -p %s -f -c` in a directory holding the reports of %d earlier steps)", k, src, src, k)
			var got []struct {
				Uri, HttpMethod, MethodName, RequestBodyClass, PackageName, ClassName string
			}
			if b, err := os.ReadFile(filepath.Join(cwd, "coca_reporter", "apis.json")); err == nil {
				json.Unmarshal(b, &got)
			}
			var gotKeys []string
			for _, g := range got {
				gotKeys = append(gotKeys, apiKey(g.HttpMethod, g.Uri, g.RequestBodyClass, g.PackageName, g.ClassName, g.MethodName))
			}
			if extra, missing := diffMultiset(gotKeys, want); len(extra)+len(missing) > 0 {
				add("cli/apis-json-differs", fmt.Sprintf("%s: apis.json\n unexpected: %v\n missing:    %v", where, extra, missing), map[string]string{"clause": "cli/apis-json-differs"})
			}
			// api.csv rows: Size, Method, URI, Caller
			var gotRows []string
			if b, err := os.ReadFile(filepath.Join(cwd, "coca_reporter", "api.csv")); err == nil {
				for i, line := range strings.Split(strings.TrimSpace(string(b)), "\n") {
					if i == 0 || strings.TrimSpace(line) == "" {
						continue
					}
					cols := strings.Split(line, ",")
					if len(cols) >= 4 {
						gotRows = append(gotRows, fmt.Sprintf("%s %s %s", strings.TrimSpace(cols[1]), strings.TrimSpace(cols[2]), strings.TrimSpace(cols[3])))
					}
				}
			}
			if extra, missing := diffMultiset(gotRows, wantRows); len(extra)+len(missing) > 0 {
				add("cli/api-csv-differs", fmt.Sprintf("%s: api.csv rows (verb, URI, caller)\n unexpected: %v\n missing:    %v", where, extra, missing), map[string]string{"clause": "cli/api-csv-differs"})
			}
			if len(want) > 0 {
				out.Probes["cli-scan-with-handlers"]++
			}
		}
	}
	out.HistoryHash = hashJSON(hist)
	out.NonTrivial = bait && exercised
	var texts []string
	for _, f := range sc.Files {
		texts = append(texts, f.Path)
	}
	sample := map[string]interface{}{"files": texts, "processes": sc.Procs}
	for _, f := range sc.Files {
		if len(f.Apis) > 0 {
			sample["a_controller"] = clip(f.Text, 1500)
			sample["its_ground_truth"] = f.Apis
			break
		}
	}
	out.Sample = sample
	return out, nil
}

// stripControllerAnnotations turns a generated controller into a plain class: the class-level
// @RestController / @Controller / @RequestMapping lines (those before the class header) are removed.
func stripControllerAnnotations(text string) string {
	lines := strings.Split(text, "\n")
	var out []string
	inHeader := true
	for _, l := range lines {
		if inHeader && (strings.HasPrefix(l, "public class ") || strings.HasPrefix(l, "public interface ")) {
			inHeader = false
		}
		if inHeader && (l == "@RestController" || l == "@Controller" || strings.HasPrefix(l, "@RequestMapping(")) {
			continue
		}
		out = append(out, l)
	}
	return strings.Join(out, "\n")
}

func diffMultiset(got, want []string) (extra, missing []string) {
	g, w := sorted(got), sorted(want)
	i, j := 0, 0
	for i < len(g) && j < len(w) {
		switch {
		case g[i] == w[j]:
			i++
			j++
		case g[i] < w[j]:
			extra = append(extra, g[i])
			i++
		default:
			missing = append(missing, w[j])
			j++
		}
	}
	extra = append(extra, g[i:]...)
	missing = append(missing, w[j:]...)
	return
}
