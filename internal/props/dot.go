package props

import (
	"fmt"
	"strings"
)

// Edge is one `"tail" -> "head";` statement of a DOT text, unescaped.
type Edge struct{ From, To string }

// ParseSimpleDot parses the line-oriented DOT that coca's call/rcall/api
// generators document: a `digraph G {` header line, then lines that are blank,
// `rankdir = LR;`, or `"a" -> "b";` with `\"` escapes inside the quotes, and a
// closing `}`.  Anything else is reported as malformed.
func ParseSimpleDot(text string) ([]Edge, error) {
	lines := strings.Split(text, "\n")
	if len(lines) == 0 || strings.TrimSpace(lines[0]) != "digraph G {" {
		first := ""
		if len(lines) > 0 {
			first = lines[0]
		}
		return nil, fmt.Errorf("header %q is not `digraph G {`", first)
	}
	// drop trailing empty lines; last non-empty must be "}"
	end := len(lines)
	for end > 0 && strings.TrimSpace(lines[end-1]) == "" {
		end--
	}
	if end < 2 || strings.TrimSpace(lines[end-1]) != "}" {
		return nil, fmt.Errorf("graph is not closed by `}`")
	}
	var edges []Edge
	for ln, line := range lines[1 : end-1] {
		s := strings.TrimSpace(line)
		if s == "" || s == "rankdir = LR;" {
			continue
		}
		e, err := parseEdgeLine(s)
		if err != nil {
			return nil, fmt.Errorf("line %d %q: %v", ln+2, line, err)
		}
		edges = append(edges, e)
	}
	return edges, nil
}

func parseQuoted(s string) (string, string, error) {
	if len(s) == 0 || s[0] != '"' {
		return "", "", fmt.Errorf("expected opening quote at %q", s)
	}
	var b strings.Builder
	i := 1
	for i < len(s) {
		c := s[i]
		if c == '\\' && i+1 < len(s) && s[i+1] == '"' {
			b.WriteByte('"')
			i += 2
			continue
		}
		if c == '"' {
			return b.String(), s[i+1:], nil
		}
		b.WriteByte(c)
		i++
	}
	return "", "", fmt.Errorf("unterminated string")
}

func parseEdgeLine(s string) (Edge, error) {
	from, rest, err := parseQuoted(s)
	if err != nil {
		return Edge{}, err
	}
	if !strings.HasPrefix(rest, " -> ") {
		return Edge{}, fmt.Errorf("expected ` -> ` after tail, got %q", rest)
	}
	to, rest, err := parseQuoted(rest[4:])
	if err != nil {
		return Edge{}, err
	}
	if rest != ";" {
		return Edge{}, fmt.Errorf("expected `;` at end, got %q", rest)
	}
	return Edge{from, to}, nil
}
