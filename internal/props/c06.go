package props

import (
	"encoding/base64"
	"encoding/json"
	"fmt"
	"os"
	"path/filepath"
	"sort"
	"strings"
	"time"

	"verif/internal/gen"
	"verif/internal/sim"
	"verif/internal/tape"
)

type C06Op struct {
	Op  string `json:"op"`  // unused | unused-cli (coca refactor -m <empty config> -p dir) | noise
	Dir int    `json:"dir"` // which project directory
	// ArgForm: 0 absolute path, 1 relative to the working directory, 2 "./"-prefixed, 3 trailing slash, 4 through a symbolic link
	ArgForm int `json:"arg_form,omitempty"`
	// SameApp: reuse the RemoveUnusedImportApp value created for this directory earlier in the process
	SameApp bool `json:"same_app,omitempty"`
}

type C06Proc struct {
	Ops []C06Op `json:"ops"`
	// TmpOtherFS: the process runs with $TMPDIR on another file system than the project
	TmpOtherFS bool `json:"tmp_other_fs,omitempty"`
	// Schedule: map-iteration schedule of the process (the ground truth holds under every order)
	Schedule *sim.Schedule `json:"schedule,omitempty"`
	Parallel bool          `json:"parallel,omitempty"` // GOMAXPROCS=8
	Unpriv   bool          `json:"unpriv,omitempty"`   // runs as an ordinary user owning the project
}

type C06Scenario struct {
	// CwdIgnore: the working directory of every process (never the analysed directory itself) holds
	// a .gitignore whose anchored patterns name the top-level package directories
	CwdIgnore bool               `json:"cwd_ignore,omitempty"`
	Dirs      [][]gen.ImportFile `json:"dirs"`
	Procs     []C06Proc          `json:"procs"`
	// Noise[d]: directory d also holds a .gitignore and ignored regular files around the sources
	Noise []bool `json:"noise,omitempty"`
	// Deep[d]: directory d also holds a directory chain deeper than PATH_MAX between its package directories
	Deep []bool `json:"deep,omitempty"`
	// Crashed[d] != 0: directory d is found as an earlier removal left it when it was interrupted: some
	// files already cleaned, some cleaned halfway (coca rewrites a file once per removed line), some
	// untouched; the value seeds which file is in which state
	Crashed []uint64 `json:"crashed,omitempty"`
	// Parent[d]: directory d lies below 1 ".jenkins/workspace" (hidden ancestor), 2 "build", 3 "my project (v2)",
	// 4 a name in decomposed Unicode; 0 directly in the scratch directory
	Parent []int `json:"parent,omitempty"`
}

type C06 struct{}

func (C06) ID() string { return "C06" }
func (C06) Rule() string {
	return "a scenario = 1-2 project directories of 1-6 generated conventional Java files whose imports have known usage (field/param/local/generic/annotation/new/static receiver/catch/throws/extends/implements/return, unused, wildcard, static) at seeded lines, and 1-2 simulated processes executing unused-import removal (the scan of all files followed by the rewrite of all nodes, as cmd/refactor.go does) one or more times per directory, optionally after other analysis passes in the same process, with a directory snapshot after every operation; the first removal in a directory is judged against the ground truth, every later one must change nothing, and directories not operated on must not change. Non-trivial = a directory with >=2 files of which at least one has a removable import was cleaned and then cleaned again (same process or after a restart); distinct = by content hash."
}
func (C06) Budget(tier string) (int, time.Duration) {
	if tier == "thorough" {
		return 20000, 25 * time.Minute
	}
	return 3000, 4 * time.Minute
}

func (C06) Generate(t *tape.Tape, tier string) interface{} {
	sc := &C06Scenario{}
	maxFiles := 5
	if tier == "thorough" {
		maxFiles = 6
	}
	nd := 1
	if t.Bool(1, 3) {
		nd = 2
	}
	for d := 0; d < nd; d++ {
		mf := maxFiles
		if d == 0 && t.Bool(1, 60) {
			mf = 150 // a project of up to 150 files (drawn uniformly): whatever depends on the number of files
		}
		sc.Dirs = append(sc.Dirs, gen.GenImportProject(t, mf))
		sc.Noise = append(sc.Noise, t.Bool(1, 4))
		sc.Deep = append(sc.Deep, t.Bool(1, 6))
		par := 0
		if t.Bool(1, 3) {
			par = 1 + t.Pick(5)
		}
		sc.Parent = append(sc.Parent, par)
		if t.Bool(1, 6) {
			sc.Crashed = append(sc.Crashed, t.Seed64()|1)
		} else {
			sc.Crashed = append(sc.Crashed, 0)
		}
	}
	// history: every directory is cleaned at least once; second runs in the same process or after a restart
	var first C06Proc
	if t.Bool(1, 4) {
		first.Ops = append(first.Ops, C06Op{Op: "noise", Dir: t.Pick(nd)})
	}
	order := t.Perm(nd)
	for _, d := range order {
		kind := "unused"
		if t.Bool(1, 4) {
			kind = "unused-cli"
		}
		form := 0
		if t.Bool(1, 3) {
			form = t.Int(1, 4)
		}
		same := kind == "unused" && t.Bool(1, 3)
		first.Ops = append(first.Ops, C06Op{Op: kind, Dir: d, ArgForm: form, SameApp: same})
		if t.Bool(1, 3) {
			first.Ops = append(first.Ops, C06Op{Op: "unused", Dir: d, ArgForm: form, SameApp: same}) // immediately again, same process (and, when drawn, the same app value)
		}
	}
	if t.Bool(1, 2) {
		first.Ops = append(first.Ops, C06Op{Op: "unused", Dir: order[0]}) // again after the other directory
	}
	if t.Bool(1, 5) {
		// a source is edited in place between two runs of the same process: same length, same mtime
		// (a clock fault); one of its used imports becomes unused and must go in the next run
		first.Ops = append(first.Ops, C06Op{Op: "edit", Dir: order[0]}, C06Op{Op: "unused", Dir: order[0]})
	}
	first.TmpOtherFS = t.Bool(1, 4)
	sc.Procs = append(sc.Procs, first)
	if t.Bool(2, 3) {
		var second C06Proc // after a restart
		for _, d := range t.Perm(nd) {
			second.Ops = append(second.Ops, C06Op{Op: "unused", Dir: d})
		}
		sc.Procs = append(sc.Procs, second)
	}
	sc.CwdIgnore = t.Bool(1, 3)
	for i := range sc.Procs {
		sc.Procs[i].Parallel = t.Bool(1, 6)
		sc.Procs[i].Unpriv = t.Bool(1, 6)
		if t.Bool(1, 3) {
			sc.Procs[i].Schedule = &sim.Schedule{Tail: []string{"seeded", "reverse", "rotate"}[t.Pick(3)], Seed: t.Seed64()}
		}
	}
	return sc
}

func (C06) Components() ([]string, []string) {
	return []string{"refactor/unused.RemoveUnusedImportApp (Analysis + Refactoring)", "refactor/base JavaRefactorListener", "refactor/base/models", "ANTLR Java parser", "real files (os/ioutil) in a scratch directory", "javaapp passes as predecessor noise"}, []string{}
}
func (C06) Assumptions() []string {
	return []string{
		"an unused import's simple name occurs nowhere else in its file (no comment-only mentions); used imports are used in exactly one listed role",
		"removal of an unused static import is permitted but not demanded (the property's title speaks of single-type imports)",
		"no disk faults are injected: the property states nothing about I/O errors",
	}
}

type snapEnt struct {
	Mode string `json:"mode"`
	Text string `json:"text"`
	B64  string `json:"b64,omitempty"`
}

// legacyMarker stands, in the JSON form of a scenario, for bytes that are not valid UTF-8
// (a Latin-1 / GBK character in a comment): JSON cannot carry them, the materialised file does.
const legacyMarker = "\u00a7LEGACY\u00a7"

func materialiseLegacy(text string) string {
	return strings.ReplaceAll(text, legacyMarker, "\xe9\xb2\xe2")
}

func (C06) Run(ctx *sim.RunCtx, data json.RawMessage) (*sim.Outcome, error) {
	var sc C06Scenario
	if err := json.Unmarshal(data, &sc); err != nil {
		return nil, sim.Harness("scenario: %v", err)
	}
	out := &sim.Outcome{Faults: map[string]int{}, Probes: map[string]int{}}
	if sc.CwdIgnore {
		os.WriteFile(filepath.Join(ctx.Dir, ".gitignore"), []byte(cwdIgnoreText), 0644)
		out.Faults["working-directory-holds-gitignore"]++
	}
	out.ContentHash = hashJSON(sc)
	// the directories as the first process finds them: as generated, or as an interrupted removal left them
	found := make([][]gen.ImportFile, len(sc.Dirs))
	for d := range sc.Dirs {
		found[d] = sc.Dirs[d]
		if d < len(sc.Crashed) && sc.Crashed[d] != 0 {
			found[d] = crashState(sc.Dirs[d], sc.Crashed[d])
			out.Faults["earlier-removal-interrupted"]++
		}
	}
	dirs := make([]string, len(sc.Dirs))
	state := make([]map[string]snapEnt, len(sc.Dirs)) // expected current state per dir
	cleaned := make([]int, len(sc.Dirs))
	for d, files := range found {
		dirs[d] = filepath.Join(ctx.Dir, fmt.Sprintf("proj%d", d))
		if d < len(sc.Parent) && sc.Parent[d] > 0 {
			dirs[d] = filepath.Join(ctx.Dir, []string{"", filepath.Join(".jenkins", "workspace"), "build", "my project (v2)", "cafe\u0301-service", "Acme, Inc"}[sc.Parent[d]%6], fmt.Sprintf("proj%d", d))
			out.Faults["project-below-unusual-directory"]++
		}
		state[d] = map[string]snapEnt{}
		for _, f := range files {
			p := filepath.Join(dirs[d], filepath.FromSlash(f.Path))
			if err := os.MkdirAll(filepath.Dir(p), 0755); err != nil {
				return nil, sim.Harness("%v", err)
			}
			mode := os.FileMode(0644)
			if len(f.Text)%5 == 0 {
				mode = 0600 // the file mode must survive the rewrite
			}
			text := materialiseLegacy(f.Text)
			if text != f.Text {
				out.Probes["file-in-legacy-encoding"]++
			}
			if err := os.WriteFile(p, []byte(text), mode); err != nil {
				return nil, sim.Harness("%v", err)
			}
			os.Chmod(p, mode)
			state[d][f.Path] = snapEnt{Mode: mode.String(), Text: text}
		}
		if d < len(sc.Noise) && sc.Noise[d] {
			noise := map[string]string{".gitignore": "*.iml\n*.log\n", "00_aaa.iml": "<module/>\n", "a/00_first.log": "log\n", "zz_last.log": "log\n"}
			for _, f := range files {
				// what merge tools, editors and interrupted rewrites leave next to a source
				dir, base := filepath.Split(filepath.FromSlash(f.Path))
				noise[filepath.ToSlash(dir+"."+base+".orig")] = "kept by a merge tool\n"
				noise[filepath.ToSlash(dir+base+".orig")] = f.Text
				noise[filepath.ToSlash(dir+base+"~")] = f.Text
				noise[filepath.ToSlash(dir+base+".tmp")] = "half\n"
				break
			}
			for name, text := range noise {
				p := filepath.Join(dirs[d], filepath.FromSlash(name))
				os.MkdirAll(filepath.Dir(p), 0755)
				os.WriteFile(p, []byte(text), 0644)
				os.Chmod(p, 0644)
				state[d][name] = snapEnt{Mode: os.FileMode(0644).String(), Text: text}
			}
			out.Faults["dir-noise"]++
		}
		if d < len(sc.Deep) && sc.Deep[d] {
			if err := makeDeepDir(dirs[d], "aa_cache"); err == nil {
				out.Faults["noise-directory-deeper-than-PATH_MAX"]++
			}
		}
	}
	seen := map[string]bool{}
	add := func(class, detail string) {
		if seen[class] {
			return
		}
		seen[class] = true
		out.Violations = append(out.Violations, sim.Violation{Class: "C06/" + class, Detail: detail, Sig: map[string]string{"clause": class}})
	}
	var hist []string
	secondRunOnMulti := false
	cur := make([][]gen.ImportFile, len(sc.Dirs)) // ground truth as edits are planned
	for d := range sc.Dirs {
		cur[d] = expectedClean(found[d])
	}
	justEdited := map[int]bool{}
	judgeTruth := map[int][]gen.ImportFile{}
	for pi, p := range sc.Procs {
		proc := &sim.Proc{Schedule: sim.Canonical(), Cwd: ctx.Dir, TmpOtherFS: p.TmpOtherFS, Parallel: p.Parallel, Unprivileged: p.Unpriv}
		if p.Unpriv {
			out.Faults["unprivileged-user"]++
		}
		if p.Parallel {
			out.Faults["real-parallelism"]++
		}
		if p.Schedule != nil {
			proc.Schedule = *p.Schedule
			out.Faults["map-perm"]++
		}
		if p.TmpOtherFS {
			out.Faults["tmpdir-on-other-fs"]++
		}
		type meta struct {
			kind string
			dir  int
		}
		var metas []meta
		edits := map[int]*gen.ImportFile{}
		truthAt := map[int][]gen.ImportFile{} // ground truth in force when meta i ran
		for _, op := range p.Ops {
			truthAt[len(metas)] = cur[op.Dir]
			hist = append(hist, fmt.Sprintf("%s%d", op.Op, op.Dir))
			dirArg := dirs[op.Dir]
			switch op.ArgForm {
			case 1:
				if rel, err := filepath.Rel(ctx.Dir, dirs[op.Dir]); err == nil {
					dirArg = rel
				}
			case 2:
				if rel, err := filepath.Rel(ctx.Dir, dirs[op.Dir]); err == nil {
					dirArg = "./" + rel
				}
			case 3:
				dirArg = dirs[op.Dir] + "/"
			case 4:
				// the project directory is reached through a symbolic link (current -> releases/v3)
				link := filepath.Join(ctx.Dir, fmt.Sprintf("current%d", op.Dir))
				os.Remove(link)
				if err := os.Symlink(dirs[op.Dir], link); err == nil {
					dirArg = link
					out.Faults["directory-named-through-symlink"]++
				}
			}
			if op.ArgForm != 0 {
				out.Faults["arg-form"]++
			}
			switch op.Op {
			case "edit":
				ed := planEdit(cur[op.Dir])
				if ed == nil {
					// nothing suitable to edit: the op degenerates to a no-op
					proc.Ops = append(proc.Ops, sim.Op{Op: "snapshot", Args: map[string]interface{}{"dir": dirs[op.Dir]}})
					metas = append(metas, meta{"skip", op.Dir})
				} else {
					proc.Ops = append(proc.Ops, sim.Op{Op: "writeFile", Args: map[string]interface{}{"path": filepath.Join(dirs[op.Dir], filepath.FromSlash(ed.Path)), "text": materialiseLegacy(ed.Text), "preserve_mtime": true}})
					metas = append(metas, meta{"edit", op.Dir})
					edits[len(metas)-1] = ed
					// the ground truth of that directory from now on
					next := append([]gen.ImportFile(nil), cur[op.Dir]...)
					for i := range next {
						if next[i].Path == ed.Path {
							next[i] = *ed
						}
					}
					cur[op.Dir] = next
					out.Faults["file-edited-in-place-same-mtime"]++
				}
			case "noise":
				proc.Ops = append(proc.Ops, sim.Op{Op: "identDir", Args: map[string]interface{}{"dir": dirs[op.Dir]}})
				metas = append(metas, meta{"noise", op.Dir})
			case "unused":
				proc.Ops = append(proc.Ops, sim.Op{Op: "unusedImports", Args: map[string]interface{}{"dir": dirArg, "same_app": op.SameApp}})
				metas = append(metas, meta{"unused", op.Dir})
			case "unused-cli":
				// the CLI route: the move-class scan (with an empty move list) runs first in the same process
				cfg := filepath.Join(ctx.Dir, "empty-move.config")
				os.WriteFile(cfg, []byte(""), 0644)
				proc.Ops = append(proc.Ops, sim.Op{Op: "cli", Args: map[string]interface{}{"args": []string{"refactor", "-m", cfg, "-p", dirArg}}})
				metas = append(metas, meta{"unused", op.Dir})
			default:
				return nil, sim.Harness("unknown op %q", op.Op)
			}
			for d := range dirs {
				proc.Ops = append(proc.Ops, sim.Op{Op: "snapshot", Args: map[string]interface{}{"dir": dirs[d]}})
				metas = append(metas, meta{"snapshot", d})
			}
		}
		hist = append(hist, "|")
		saved := ctx.ProcTimeout
		ctx.ProcTimeout = 40 * time.Second
		res, err := ctx.Run(proc)
		ctx.ProcTimeout = saved
		if err != nil {
			return nil, err
		}
		if pi > 0 {
			out.Faults["restart"]++
		}
		lastUnused := -1
		opNo := -1
		for ri, m := range metas {
			if !res.Completed(ri) {
				add("process-ended", fmt.Sprintf("process %d ended with %q during %s on directory %d\n%s", pi, res.Ended, m.kind, m.dir, firstLines(res.Stderr, 6)))
				break
			}
			rec := res.Records[ri]
			switch m.kind {
			case "skip":
				opNo++
				lastUnused = -1
			case "edit":
				opNo++
				lastUnused = -1
				if !rec.OK {
					return nil, sim.Harness("edit failed: %s", rec.Panic)
				}
				justEdited[m.dir] = true
				judgeTruth[m.dir] = cur2(truthAt, ri, metas, found[m.dir], edits)
			case "noise":
				opNo++
				lastUnused = -1
			case "unused":
				opNo++
				if !rec.OK {
					add("panics", fmt.Sprintf("process %d: unused-import removal on directory %d panicked: %s", pi, m.dir, rec.Panic))
				}
				lastUnused = m.dir
				if opNo > 0 {
					out.Faults["no-restart"]++
				}
			case "snapshot":
				if !rec.OK {
					return nil, sim.Harness("snapshot failed: %s", rec.Panic)
				}
				var snap map[string]snapEnt
				if err := json.Unmarshal(rec.Result, &snap); err != nil {
					return nil, sim.Harness("snapshot: %v", err)
				}
				for k, e := range snap {
					if e.B64 != "" {
						raw, err := base64.StdEncoding.DecodeString(e.B64)
						if err != nil {
							return nil, sim.Harness("snapshot: %v", err)
						}
						e.Text, e.B64 = string(raw), ""
						snap[k] = e
					}
				}
				d := m.dir
				if justEdited[d] && d != lastUnused {
					// the snapshot right after the edit: the edited state is the new starting point
					state[d] = snap
					cleaned[d] = 0
					justEdited[d] = false
					continue
				}
				if d == lastUnused && cleaned[d] == 0 {
					// first removal in this directory (or first after an edit): judge against the ground truth
					truth := found[d]
					if jt, ok := judgeTruth[d]; ok {
						truth = jt
					}
					c06Judge(truth, state[d], snap, fmt.Sprintf("process %d, first removal in directory %d", pi, d), add, out)
					cleaned[d]++
					state[d] = snap
					continue
				}
				if d == lastUnused {
					cleaned[d]++
					if len(sc.Dirs[d]) >= 2 && hasRemovable(sc.Dirs[d]) {
						secondRunOnMulti = true
					}
				}
				// every other situation: nothing may change
				if diff := snapDiff(state[d], snap); diff != "" {
					if d == lastUnused {
						add("second-run-changes-files", fmt.Sprintf("process %d: removal run no. %d in directory %d changed files again:\n%s", pi, cleaned[d], d, diff))
					} else {
						add("other-directory-changed", fmt.Sprintf("process %d: directory %d changed although the operation was on directory %d:\n%s", pi, d, lastUnused, diff))
					}
					state[d] = snap
				}
			}
		}
	}
	out.HistoryHash = hashJSON(hist)
	out.NonTrivial = secondRunOnMulti
	out.Sample = map[string]interface{}{"directories": sc.Dirs, "processes": sc.Procs}
	return out, nil
}

// expectedClean is the directory after a correct first removal: unused single-type imports gone.
func expectedClean(files []gen.ImportFile) []gen.ImportFile {
	var out []gen.ImportFile
	for _, f := range files {
		if f.Exempt {
			out = append(out, f)
			continue
		}
		drop := map[int]bool{}
		for _, im := range f.Imports {
			if im.Role == "" && !im.Wildcard && !im.Static {
				drop[im.Line] = true
			}
		}
		lines := strings.Split(f.Text, "\n")
		var kept []string
		newLine := map[int]int{}
		for i, l := range lines {
			if drop[i+1] {
				continue
			}
			kept = append(kept, l)
			newLine[i+1] = len(kept)
		}
		g := f
		g.Text = strings.Join(kept, "\n")
		g.Imports = nil
		for _, im := range f.Imports {
			if drop[im.Line] {
				continue
			}
			im.Line = newLine[im.Line]
			g.Imports = append(g.Imports, im)
		}
		out = append(out, g)
	}
	return out
}

// crashState returns the directory as an interrupted removal left it: per file (decided by seed)
// untouched, fully cleaned, or with only its first unused single-type import removed.
func crashState(files []gen.ImportFile, seed uint64) []gen.ImportFile {
	clean := expectedClean(files)
	out := make([]gen.ImportFile, len(files))
	for i, f := range files {
		out[i] = f
		if f.Exempt {
			continue
		}
		switch (seed >> (uint(i%20) * 3)) % 3 {
		case 1:
			out[i] = clean[i]
		case 2:
			first := -1
			for k, im := range f.Imports {
				if im.Role == "" && !im.Wildcard && !im.Static {
					first = k
					break
				}
			}
			if first < 0 {
				continue
			}
			g := f
			lines := strings.Split(f.Text, "\n")
			ln := f.Imports[first].Line
			lines = append(lines[:ln-1:ln-1], lines[ln:]...)
			g.Text = strings.Join(lines, "\n")
			g.Imports = nil
			for k, im := range f.Imports {
				if k == first {
					continue
				}
				if im.Line > ln {
					im.Line--
				}
				g.Imports = append(g.Imports, im)
			}
			out[i] = g
		}
	}
	return out
}

// planEdit picks, deterministically, a cleaned file with an import used in its body and returns
// the file as it looks after every use of that simple name (outside import lines) was replaced
// by a same-length other name: the import is unused from then on.
func planEdit(files []gen.ImportFile) *gen.ImportFile {
	sortedFiles := append([]gen.ImportFile(nil), files...)
	sort.Slice(sortedFiles, func(i, j int) bool { return sortedFiles[i].Path < sortedFiles[j].Path })
	for _, f := range sortedFiles {
		if f.Exempt || strings.Contains(f.Text, "\r") {
			continue
		}
		for k, im := range f.Imports {
			if im.Role == "" || im.Wildcard || im.Static || len(im.Simple) < 3 || im.Simple[0] > 127 {
				continue
			}
			dupes := 0
			for _, o := range f.Imports {
				if o.Simple == im.Simple || strings.HasSuffix(o.Simple, im.Simple) || strings.HasPrefix(o.Simple, im.Simple) {
					dupes++
				}
			}
			if dupes != 1 {
				continue
			}
			repl := im.Simple[:len(im.Simple)-1] + "q"
			if repl == im.Simple {
				repl = im.Simple[:len(im.Simple)-1] + "z"
			}
			lines := strings.Split(f.Text, "\n")
			for i, l := range lines {
				if strings.HasPrefix(strings.TrimSpace(l), "import ") {
					continue
				}
				lines[i] = strings.ReplaceAll(l, im.Simple, repl)
			}
			g := f
			g.Text = strings.Join(lines, "\n")
			if len(g.Text) != len(f.Text) || g.Text == f.Text {
				continue
			}
			g.Imports = append([]gen.ImportLine(nil), f.Imports...)
			g.Imports[k].Role = ""
			return &g
		}
	}
	return nil
}

// cur2 returns the ground truth valid after the edit recorded at meta index ri.
func cur2(truthAt map[int][]gen.ImportFile, ri int, metas interface{}, orig []gen.ImportFile, edits map[int]*gen.ImportFile) []gen.ImportFile {
	base := truthAt[ri]
	if base == nil {
		base = expectedClean(orig)
	}
	ed := edits[ri]
	if ed == nil {
		return base
	}
	out := append([]gen.ImportFile(nil), base...)
	for i := range out {
		if out[i].Path == ed.Path {
			out[i] = *ed
		}
	}
	return out
}

func hasRemovable(files []gen.ImportFile) bool {
	for _, f := range files {
		if f.Exempt {
			continue
		}
		for _, im := range f.Imports {
			if im.Role == "" && !im.Wildcard && !im.Static {
				return true
			}
		}
	}
	return false
}

func snapDiff(a, b map[string]snapEnt) string {
	var ds []string
	for p, ea := range a {
		eb, ok := b[p]
		if !ok {
			ds = append(ds, p+": file disappeared")
			continue
		}
		if ea.Mode != eb.Mode {
			ds = append(ds, fmt.Sprintf("%s: mode %s -> %s", p, ea.Mode, eb.Mode))
		}
		if ea.Text != eb.Text {
			ds = append(ds, fmt.Sprintf("%s: content changed\n--- before\n%s--- after\n%s", p, clip(ea.Text, 500), clip(eb.Text, 500)))
		}
	}
	for p := range b {
		if _, ok := a[p]; !ok {
			ds = append(ds, p+": new file")
		}
	}
	sort.Strings(ds)
	return strings.Join(ds, "\n")
}

// c06Judge evaluates the first removal run against the ground truth.
func c06Judge(files []gen.ImportFile, before, after map[string]snapEnt, where string, add func(string, string), out *sim.Outcome) {
	for p := range after {
		if _, ok := before[p]; !ok {
			add("new-file", fmt.Sprintf("%s: new file %s", where, p))
		}
	}
	javaPaths := map[string]bool{}
	for _, f := range files {
		javaPaths[f.Path] = true
	}
	for p, b := range before {
		if javaPaths[p] {
			continue
		}
		if a, ok := after[p]; !ok || a != b {
			add("non-java-file-changed", fmt.Sprintf("%s: %s (not a Java source) changed or disappeared", where, p))
		}
	}
	for _, f := range files {
		b := before[f.Path]
		a, ok := after[f.Path]
		if !ok {
			add("file-disappeared", fmt.Sprintf("%s: %s disappeared", where, f.Path))
			continue
		}
		if a.Mode != b.Mode {
			add("mode-changed", fmt.Sprintf("%s: %s mode %s -> %s", where, f.Path, b.Mode, a.Mode))
		}
		bl := strings.Split(b.Text, "\n")
		al := strings.Split(a.Text, "\n")
		// after must be before minus a set of whole lines
		var deleted []int // 1-based line numbers of before
		i, j := 0, 0
		for i < len(bl) {
			if j < len(al) && bl[i] == al[j] {
				i++
				j++
				continue
			}
			deleted = append(deleted, i+1)
			i++
		}
		if j != len(al) {
			add("not-a-line-deletion", fmt.Sprintf("%s: %s is not its original minus whole lines\n--- before\n%s--- after\n%s", where, f.Path, clip(b.Text, 700), clip(a.Text, 700)))
			continue
		}
		byLine := map[int]gen.ImportLine{}
		for _, im := range f.Imports {
			byLine[im.Line] = im
		}
		// a run of identical adjacent lines makes the position of a deletion ambiguous; the generator
		// emits no two identical import lines, so a deleted import line is identified by its text
		delText := map[string]bool{}
		for _, ln := range deleted {
			im, isImport := byLine[ln]
			if !isImport {
				// tolerate ambiguity between equal adjacent lines (blank lines): find an import with that text
				if strings.HasPrefix(strings.TrimSpace(bl[ln-1]), "import ") {
					isImport = true
					for _, cand := range f.Imports {
						if cand.Text == strings.TrimRight(bl[ln-1], "\r") {
							im = cand
						}
					}
				}
			}
			if !isImport {
				add("deleted-non-import-line", fmt.Sprintf("%s: %s lost line %d %q, which is not an import", where, f.Path, ln, bl[ln-1]))
				continue
			}
			delText[im.Text] = true
			if im.Wildcard {
				add("deleted-wildcard-import", fmt.Sprintf("%s: %s lost wildcard import %q", where, f.Path, im.Text))
			} else if im.Role != "" {
				add("deleted-used-import/"+im.Role, fmt.Sprintf("%s: %s lost %q although %s is used as %s\n%s", where, f.Path, im.Text, im.Simple, im.Role, clip(b.Text, 900)))
			}
		}
		for _, im := range f.Imports {
			if im.Role == "" && !im.Wildcard && !im.Static && !delText[im.Text] && !f.Exempt {
				add("unused-import-kept", fmt.Sprintf("%s: %s keeps unused import %q (file %d of %d in its directory)\n%s", where, f.Path, im.Text, indexOf(files, f.Path)+1, len(files), clip(a.Text, 900)))
			}
			if im.Role == "" && !im.Wildcard && !im.Static && !f.Exempt {
				out.Probes["removable-import"]++
			}
			if f.Exempt {
				out.Probes["import-in-filtered-file"]++
			}
			if im.Role != "" {
				out.Probes["used-import:"+im.Role]++
			}
		}
	}
}

func indexOf(files []gen.ImportFile, path string) int {
	var ps []string
	for _, f := range files {
		ps = append(ps, f.Path)
	}
	sort.Strings(ps)
	for i, p := range ps {
		if p == path {
			return i
		}
	}
	return -1
}
