// simproc is one simulated "coca process" (seam S2).
//
// It is linked against the scratch copy of coca in which the map-iteration seam
// has been installed, executes ONE script of operations strictly in order in
// this one OS process (so every package-level variable of coca persists from
// one operation to the next, exactly as in a long-lived library user or in the
// CLI), and appends one JSON record per operation to the result file.  A
// process end is a "restart": nothing but files survives it.
//
// usage: simproc <script.json> <result.jsonl>
package main

import (
	"encoding/json"
	"fmt"
	"os"
	"runtime/debug"
	"time"

	"verifsim.local/simrt"
)

type Op struct {
	Op   string          `json:"op"`
	Args json.RawMessage `json:"args"`
}

type Script struct {
	Schedule simrt.Schedule `json:"schedule"`
	Cwd      string         `json:"cwd"`
	Ops      []Op           `json:"ops"`
	// LogEvents asks for the full event log in the trailer (otherwise only counts and hash).
	LogEvents bool `json:"log_events,omitempty"`
}

type Record struct {
	I      int             `json:"i"`
	Op     string          `json:"op"`
	OK     bool            `json:"ok"`
	Panic  string          `json:"panic,omitempty"`
	Result json.RawMessage `json:"result,omitempty"`
	CPUms  int64           `json:"cpu_ms"`
	// Events: number of map-iteration events after this op (cumulative)
	Events int `json:"events"`
}

type Trailer struct {
	Trailer   bool           `json:"trailer"`
	Events    int            `json:"events"`
	NonCanon  int            `json:"non_canonical"`
	EventHash string         `json:"event_hash"`
	PerSite   map[string]int `json:"per_site"`
	Log       []simrt.Event  `json:"log,omitempty"`
}

func fatal(f string, a ...interface{}) {
	fmt.Fprintf(os.Stderr, "simproc: "+f+"\n", a...)
	os.Exit(3) // harness failure, distinct from coca's own exits
}

func main() {
	if len(os.Args) != 3 {
		fatal("usage: simproc <script.json> <result.jsonl>")
	}
	debug.SetMaxStack(64 << 20) // unbounded recursion dies in milliseconds, not after 1 GB
	raw, err := os.ReadFile(os.Args[1])
	if err != nil {
		fatal("%v", err)
	}
	var sc Script
	if err := json.Unmarshal(raw, &sc); err != nil {
		fatal("script: %v", err)
	}
	out, err := os.OpenFile(os.Args[2], os.O_CREATE|os.O_TRUNC|os.O_WRONLY, 0644)
	if err != nil {
		fatal("%v", err)
	}
	defer out.Close()
	if sc.Cwd != "" {
		if err := os.Chdir(sc.Cwd); err != nil {
			fatal("chdir: %v", err)
		}
	}
	// coca prints progress chatter with fmt.Println: not an observable of any property
	if devnull, err := os.OpenFile(os.DevNull, os.O_WRONLY, 0); err == nil {
		os.Stdout = devnull
	}
	simrt.Install(sc.Schedule)

	for i, op := range sc.Ops {
		rec := Record{I: i, Op: op.Op}
		start := time.Now() // reporting only; never influences behaviour
		func() {
			defer func() {
				if r := recover(); r != nil {
					rec.OK = false
					rec.Panic = fmt.Sprint(r)
				}
			}()
			res, err := dispatch(op)
			if err != nil {
				fatal("op %d (%s): %v", i, op.Op, err)
			}
			b, err := json.Marshal(res)
			if err != nil {
				rec.OK = false
				rec.Panic = "result not serialisable: " + err.Error()
				return
			}
			rec.Result = b
			rec.OK = true
		}()
		rec.CPUms = time.Since(start).Milliseconds()
		_, rec.Events, _, _, _ = simrt.Snapshot()
		line, _ := json.Marshal(rec)
		out.Write(append(line, '\n'))
	}
	evs, total, perm, h, perSite := simrt.Snapshot()
	tr := Trailer{Trailer: true, Events: total, NonCanon: perm, EventHash: fmt.Sprintf("%016x", h), PerSite: perSite}
	if sc.LogEvents {
		tr.Log = evs
	}
	line, _ := json.Marshal(tr)
	out.Write(append(line, '\n'))
}
