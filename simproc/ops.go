package main

import (
	"bytes"
	"encoding/base64"
	"encoding/json"
	"errors"
	"fmt"
	"os"
	"path/filepath"
	"strings"
	"syscall"
	"unicode/utf8"

	"github.com/modernizing/coca/cmd"
	"github.com/modernizing/coca/pkg/application/analysis/goapp"
	"github.com/modernizing/coca/pkg/application/analysis/javaapp"
	"github.com/modernizing/coca/pkg/application/api"
	"github.com/modernizing/coca/pkg/application/bs"
	"github.com/modernizing/coca/pkg/application/call"
	"github.com/modernizing/coca/pkg/application/git"
	"github.com/modernizing/coca/pkg/application/rcall"
	"github.com/modernizing/coca/pkg/application/refactor/unused"
	"github.com/modernizing/coca/pkg/domain/api_domain"
	"github.com/modernizing/coca/pkg/domain/core_domain"
)

var unusedApps = map[string]*unused.RemoveUnusedImportApp{}

// reusedModel is the process's long-lived model variable: the CLI commands decode every deps.json
// into one package-level slice, so encoding/json reuses its backing array from run to run.
var reusedModel []core_domain.CodeDataStruct

// A library user may keep one analyser value for the life of the process (the types are plain values
// without fields); "reuse" steps therefore run on a value made once per process, other steps on a fresh one.
var (
	keptCall     call.CallGraph
	keptRCall    rcall.RCallGraph
	keptCallSet  bool
	keptRCallSet bool
)

func callAnalyser(reuse bool) call.CallGraph {
	if !reuse {
		return call.NewCallGraph()
	}
	if !keptCallSet {
		keptCall, keptCallSet = call.NewCallGraph(), true
	}
	return keptCall
}

func rcallAnalyser(reuse bool) rcall.RCallGraph {
	if !reuse {
		return rcall.NewRCallGraph()
	}
	if !keptRCallSet {
		keptRCall, keptRCallSet = rcall.NewRCallGraph(), true
	}
	return keptRCall
}

func loadModelReuse(path string, reuse bool) ([]core_domain.CodeDataStruct, error) {
	if !reuse {
		return loadModel(path)
	}
	raw, err := os.ReadFile(path)
	if err != nil {
		return nil, err
	}
	if err := json.Unmarshal(raw, &reusedModel); err != nil {
		return nil, fmt.Errorf("%s: %v", path, err)
	}
	return reusedModel, nil
}

func loadModel(path string) ([]core_domain.CodeDataStruct, error) {
	if path == "" {
		return nil, nil
	}
	raw, err := os.ReadFile(path)
	if err != nil {
		return nil, err
	}
	var m []core_domain.CodeDataStruct
	if err := json.Unmarshal(raw, &m); err != nil {
		return nil, fmt.Errorf("%s: %v", path, err)
	}
	return m, nil
}

func dispatch(op Op) (interface{}, error) {
	switch op.Op {
	case "ident":
		var a struct {
			Files []string `json:"files"`
		}
		if err := json.Unmarshal(op.Args, &a); err != nil {
			return nil, err
		}
		app := javaapp.NewJavaIdentifierApp()
		return app.AnalysisFiles(heldList(a.Files)), nil

	case "identDir":
		var a struct {
			Dir string `json:"dir"`
		}
		if err := json.Unmarshal(op.Args, &a); err != nil {
			return nil, err
		}
		app := javaapp.NewJavaIdentifierApp()
		return app.AnalysisPath(a.Dir), nil

	case "full":
		var a struct {
			Ident string   `json:"ident"`
			Files []string `json:"files"`
		}
		if err := json.Unmarshal(op.Args, &a); err != nil {
			return nil, err
		}
		ident, err := loadModel(a.Ident)
		if err != nil {
			return nil, err
		}
		app := javaapp.NewJavaFullApp()
		return app.AnalysisFiles(ident, heldList(a.Files)), nil

	case "fullDir":
		var a struct {
			Ident string `json:"ident"`
			Dir   string `json:"dir"`
		}
		if err := json.Unmarshal(op.Args, &a); err != nil {
			return nil, err
		}
		ident, err := loadModel(a.Ident)
		if err != nil {
			return nil, err
		}
		app := javaapp.NewJavaFullApp()
		return app.AnalysisPath(a.Dir, ident), nil

	case "bs":
		var a struct {
			Dir    string   `json:"dir"`
			Ignore []string `json:"ignore"`
		}
		if err := json.Unmarshal(op.Args, &a); err != nil {
			return nil, err
		}
		app := bs.NewBadSmellApp()
		nodes := app.AnalysisPath(a.Dir)
		// copy: the slice is a package-level variable of coca that the next call resets
		model, _ := json.Marshal(nodes)
		smells := app.IdentifyBadSmell(nodes, a.Ignore)
		return map[string]interface{}{"nodes": json.RawMessage(model), "smells": smells}, nil

	case "api":
		var a struct {
			Dir   string `json:"dir"`
			Deps  string `json:"deps"`
			Ident string `json:"ident"`
		}
		if err := json.Unmarshal(op.Args, &a); err != nil {
			return nil, err
		}
		ident, err := loadModel(a.Ident)
		if err != nil {
			return nil, err
		}
		deps, err := loadModel(a.Deps)
		if err != nil {
			return nil, err
		}
		// as cmd/api.go does
		identMap := core_domain.BuildIdentifierMap(ident)
		diMap := core_domain.BuildDIMap(ident, identMap)
		app := new(api.JavaApiApp)
		res := app.AnalysisPath(a.Dir, deps, identMap, diMap)
		if res == nil {
			res = []api_domain.RestAPI{}
		}
		return res, nil

	case "call":
		var a struct {
			Root   string `json:"root"`
			Model  string `json:"model"`
			Lookup bool   `json:"lookup"`
			Reuse  bool   `json:"reuse"`
		}
		if err := json.Unmarshal(op.Args, &a); err != nil {
			return nil, err
		}
		m, err := loadModelReuse(a.Model, a.Reuse)
		if err != nil {
			return nil, err
		}
		return callAnalyser(a.Reuse).Analysis(a.Root, m, a.Lookup), nil

	case "callByFiles":
		var a struct {
			Apis  []api_domain.RestAPI `json:"apis"`
			Model string               `json:"model"`
			DI    map[string]string    `json:"di"`
			Reuse bool                 `json:"reuse"`
		}
		if err := json.Unmarshal(op.Args, &a); err != nil {
			return nil, err
		}
		m, err := loadModelReuse(a.Model, a.Reuse)
		if err != nil {
			return nil, err
		}
		dot, counts := callAnalyser(a.Reuse).AnalysisByFiles(a.Apis, m, a.DI)
		return map[string]interface{}{"dot": dot, "counts": counts}, nil

	case "rcall":
		var a struct {
			Target string `json:"target"`
			Model  string `json:"model"`
			Reuse  bool   `json:"reuse"`
		}
		if err := json.Unmarshal(op.Args, &a); err != nil {
			return nil, err
		}
		m, err := loadModelReuse(a.Model, a.Reuse)
		if err != nil {
			return nil, err
		}
		var cb json.RawMessage
		calls := 0
		dot := rcallAnalyser(a.Reuse).Analysis(a.Target, m, func(rm map[string][]string) {
			calls++
			cb, _ = json.Marshal(rm) // snapshot at callback time
		})
		return map[string]interface{}{"dot": dot, "map": cb, "callbacks": calls}, nil

	case "unusedImports":
		var a struct {
			Dir     string `json:"dir"`
			SameApp bool   `json:"same_app"`
		}
		if err := json.Unmarshal(op.Args, &a); err != nil {
			return nil, err
		}
		// exactly what cmd/refactor.go does after the move step
		if a.SameApp {
			// a library user keeping one app value per directory and running it again
			app, ok := unusedApps[a.Dir]
			if !ok {
				app = unused.NewRemoveUnusedImportApp(a.Dir)
				unusedApps[a.Dir] = app
			}
			results := app.Analysis()
			app.Refactoring(results)
			return len(results), nil
		}
		app := unused.NewRemoveUnusedImportApp(a.Dir)
		results := app.Analysis()
		app.Refactoring(results)
		return len(results), nil

	case "goIdent":
		var a struct {
			File string `json:"file"`
		}
		if err := json.Unmarshal(op.Args, &a); err != nil {
			return nil, err
		}
		raw, err := os.ReadFile(a.File)
		if err != nil {
			return nil, err
		}
		app := &goapp.GoIdentApp{}
		return app.Analysis(string(raw), a.File), nil

	case "tear":
		// harness op: every regular file of a directory is cut to a percentage of its length (what a
		// command interrupted in the middle of its writes leaves behind)
		var a struct {
			Dir     string   `json:"dir"`
			Percent int      `json:"percent"`
			Keep    []string `json:"keep"` // file names left alone (inputs of the next command)
			// Tmp: a sibling <name>.tmp is left for each of these report names, longer than any report
			// (what an interrupted write-to-temporary-then-rename leaves); nothing ever reads them
			Tmp []string `json:"tmp"`
		}
		if err := json.Unmarshal(op.Args, &a); err != nil {
			return nil, err
		}
		if len(a.Tmp) > 0 {
			os.MkdirAll(a.Dir, 0755)
			junk := bytes.Repeat([]byte("{\"interrupted\": true}\n"), 4096)
			for _, name := range a.Tmp {
				os.WriteFile(filepath.Join(a.Dir, name+".tmp"), junk, 0644)
			}
		}
		ents, err := os.ReadDir(a.Dir)
		if err != nil {
			return 0, nil // nothing there yet
		}
		n := 0
	tear:
		for _, e := range ents {
			for _, k := range a.Keep {
				if e.Name() == k {
					continue tear
				}
			}
			if strings.HasSuffix(e.Name(), ".tmp") {
				continue
			}
			p := filepath.Join(a.Dir, e.Name())
			if fi, err := os.Lstat(p); err == nil && fi.Mode().IsRegular() {
				if err := os.Truncate(p, fi.Size()*int64(a.Percent)/100); err == nil {
					n++
				}
			}
		}
		return n, nil

	case "writeFile":
		// harness op: a change of the durable state between two operations of one process
		var a struct {
			Path string `json:"path"`
			Text string `json:"text"`
			// PreserveMtime: the edit keeps the file's modification time (cp -p, rsync -t, or two
			// writes within one tick of a coarse file-system clock)
			PreserveMtime bool `json:"preserve_mtime"`
		}
		if err := json.Unmarshal(op.Args, &a); err != nil {
			return nil, err
		}
		var old os.FileInfo
		if a.PreserveMtime {
			old, _ = os.Stat(a.Path)
		}
		if err := os.WriteFile(a.Path, []byte(a.Text), 0644); err != nil {
			return nil, err
		}
		if old != nil {
			if err := os.Chtimes(a.Path, old.ModTime(), old.ModTime()); err != nil {
				return nil, err
			}
		}
		return true, nil

	case "snapshot":
		// harness op: the state of a directory tree (durable state between operations)
		var a struct {
			Dir string `json:"dir"`
		}
		if err := json.Unmarshal(op.Args, &a); err != nil {
			return nil, err
		}
		type ent struct {
			Mode string `json:"mode"`
			Text string `json:"text"`
			B64  string `json:"b64,omitempty"` // content that is not valid UTF-8 (legacy source encodings)
		}
		snap := map[string]ent{}
		err := filepath.Walk(a.Dir, func(p string, info os.FileInfo, err error) error {
			if err != nil {
				if errors.Is(err, syscall.ENAMETOOLONG) {
					return nil // the levels of a deliberately over-deep noise directory: no files there
				}
				return err
			}
			if info.IsDir() {
				return nil
			}
			b, err := os.ReadFile(p)
			if err != nil {
				return err
			}
			rel, _ := filepath.Rel(a.Dir, p)
			if utf8.Valid(b) {
				snap[filepath.ToSlash(rel)] = ent{info.Mode().String(), string(b), ""}
			} else {
				snap[filepath.ToSlash(rel)] = ent{info.Mode().String(), "", base64.StdEncoding.EncodeToString(b)}
			}
			return nil
		})
		if err != nil {
			return nil, err
		}
		return snap, nil

	case "git":
		var a struct {
			Log  string   `json:"log"`  // file holding the log text
			Logs []string `json:"logs"` // or several, parsed one after the other in this process
		}
		if err := json.Unmarshal(op.Args, &a); err != nil {
			return nil, err
		}
		one := func(path string) (interface{}, error) {
			raw, err := os.ReadFile(path)
			if err != nil {
				return nil, err
			}
			commits := git.BuildMessageByInput(string(raw))
			commitsJSON, _ := json.Marshal(commits)
			var buf bytes.Buffer
			git.ShowChangeLogSummary(commits, &buf)
			ages := git.CalculateCodeAge(commits)
			type age struct {
				EntityName string
				Age        string
			}
			var agesOut []age
			for _, a := range ages {
				agesOut = append(agesOut, age{a.EntityName, a.Age.Format("2006-01-02T15:04:05.000000000Z07:00")})
			}
			return map[string]interface{}{
				"commits":   json.RawMessage(commitsJSON),
				"team":      git.GetTeamSummary(commits),
				"age":       agesOut,
				"top":       git.GetTopAuthors(commits),
				"basic":     git.BasicSummary(commits),
				"changemap": git.BuildChangeMap(commits),
				"changelog": buf.String(),
			}, nil
		}
		if len(a.Logs) == 0 {
			return one(a.Log)
		}
		var all []interface{}
		for _, l := range a.Logs {
			r, err := one(l)
			if err != nil {
				return nil, err
			}
			all = append(all, r)
		}
		return all, nil

	case "cli":
		var a struct {
			Args []string `json:"args"`
			Read []string `json:"read"` // files to return right after the command (reports are overwritten by later commands)
			// Fifo: before the command runs, Path is created as a named pipe into which a writer
			// delivers the bytes of From (what `-d <(zcat deps.json.gz)` or `-d /dev/stdin` give the command)
			Fifo *struct {
				Path string `json:"path"`
				From string `json:"from"`
			} `json:"fifo"`
		}
		if err := json.Unmarshal(op.Args, &a); err != nil {
			return nil, err
		}
		if a.Fifo != nil {
			data, err := os.ReadFile(a.Fifo.From)
			if err != nil {
				return nil, err
			}
			os.Remove(a.Fifo.Path)
			if err := syscall.Mkfifo(a.Fifo.Path, 0644); err != nil {
				return nil, err
			}
			go func() {
				w, err := os.OpenFile(a.Fifo.Path, os.O_WRONLY, 0)
				if err != nil {
					return
				}
				w.Write(data)
				w.Close()
			}()
		}
		var buf bytes.Buffer
		root := cmd.NewRootCmd(&buf)
		root.SetArgs(a.Args)
		err := root.Execute()
		res := map[string]interface{}{"output": buf.String()}
		if err != nil {
			res["error"] = err.Error()
		}
		files := map[string]string{}
		for _, f := range a.Read {
			if b, err := os.ReadFile(f); err == nil {
				files[f] = string(b)
			}
		}
		res["files"] = files
		return res, nil
	}
	return nil, fmt.Errorf("unknown op %q", op.Op)
}

// heldLists: a caller that analyses the same list of files again (identifier pass, then full pass,
// then once more) holds ONE slice and passes it every time; equal lists of one process are therefore
// the same slice object. heldCopies lets the harness notice a callee that wrote into the caller's list.
var heldLists = map[string][]string{}

func heldList(files []string) []string {
	key := strings.Join(files, "\x00")
	if l, ok := heldLists[key]; ok {
		return l
	}
	l := append(make([]string, 0, len(files)+4), files...) // spare capacity, as a list built by append has
	heldLists[key] = l
	return l
}
