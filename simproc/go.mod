module simproc

go 1.18

// template only: internal/sim/build.go writes the real go.mod next to a scratch copy of coca
