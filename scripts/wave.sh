#!/bin/bash
# Process one wave of sub-agent mutants: for every /tmp/wt-<ID>-<suffix>/MUTANT, confirm it (suite and
# demonstration both ways, in its worktree) and run the property's check against a scratch copy of
# /repo carrying the patch (scripts/par_seeded.sh).  Usage: scripts/wave.sh <suffix-glob>   e.g. '11?'
cd "$(dirname "$0")/.."
one() { wt=$1; id=$(basename $wt | sed 's/^wt-\(C[0-9]*\)-.*/\1/'); sfx=$(basename $wt | sed 's/^wt-C[0-9]*-//'); name="$id-w$sfx"
  [ -f $wt/MUTANT/patch.diff ] || { echo "PENDING  $wt"; return; }
  if [ ! -d seeded/$name ]; then
    if ! scripts/confirm_mutant.sh $wt $name > /tmp/confirm-$name.log 2>&1; then echo "UNCONFIRMED $name: $(tail -n 1 /tmp/confirm-$name.log)"; return; fi
  fi
  [ -f seeded/$name/meta.json ] || python3 - seeded/$name <<'PY'
import json,sys
d=sys.argv[1]; a=json.load(open(d+'/agent_meta.json'))
m={"property":a["property"],"origin":"independent sub-agent given only the property text and a scratch worktree","summary":a.get("summary",""),"needs_to_manifest":a.get("needs_to_manifest",""),"files_changed":a.get("files_changed") or [],
 "confirmed":"scripts/confirm_mutant.sh: patch applies and builds; coca's suite (-p 1) keeps all 191 stable tests passing; demo/run.sh passes without and fails with the patch"}
json.dump(m,open(d+'/meta.json','w'),indent=1,ensure_ascii=False)
PY
}
export -f one
ls -d /tmp/wt-*-$1 | xargs -P 4 -I{} bash -c 'one {}'
names=$(for wt in /tmp/wt-*-$1; do id=$(basename $wt | sed 's/^wt-\(C[0-9]*\)-.*/\1/'); sfx=$(basename $wt | sed 's/^wt-C[0-9]*-//'); [ -d seeded/$id-w$sfx ] && echo "$id-w$sfx"; done)
[ -n "$names" ] && scripts/par_seeded.sh -j ${J:-3} $names
