#!/bin/bash
# Process one wave of sub-agent mutants: for every /tmp/wt-<ID>-<suffix>/MUTANT, confirm it and run the
# property's check. Usage: scripts/wave.sh <suffix-glob>   e.g. scripts/wave.sh '7?'
cd "$(dirname "$0")/.."
for wt in /tmp/wt-*-$1; do
  [ -f $wt/MUTANT/patch.diff ] || { echo "PENDING  $wt"; continue; }
  id=$(basename $wt | sed 's/^wt-\(C[0-9]*\)-.*/\1/'); sfx=$(basename $wt | sed 's/^wt-C[0-9]*-//')
  name="$id-w$sfx"
  if [ ! -d seeded/$name ]; then
    if ! scripts/confirm_mutant.sh $wt $name > /tmp/confirm-$name.log 2>&1; then echo "UNCONFIRMED $name: $(tail -1 /tmp/confirm-$name.log)"; continue; fi
  fi
  out=$(scripts/try_patch.sh seeded/$name/patch.diff $id 2>&1)
  files=$(grep '^+++ b/' seeded/$name/patch.diff | sed 's|+++ b/||' | tr '\n' ' ')
  if echo "$out" | grep -q "$id exit=1"; then echo "CAUGHT  $name [$files] $(echo "$out" | grep 'violation class' | head -2 | sed 's/violation class: //' | tr '\n' ' ')";
  elif echo "$out" | grep -q "$id exit=0"; then echo "MISSED  $name [$files]"; else echo "ERROR   $name: $(echo "$out" | tail -2 | tr '\n' ' ')"; fi
done
