#!/bin/bash
# Run coca's own test suite on a scratch clone (with .git, which the cmd tests need) of a tree
# and compare with the stable baseline.  Never runs anything inside /repo.
#   scripts/suite.sh [tree (default /repo)] [extra go test flags, e.g. -p 1]
# Exit 0 iff every test of BASELINE.stable_pass passes.
set -u
TREE=${1:-/repo}; shift || true
export GOFLAGS=-mod=mod GOPROXY=off GOSUMDB=off GOTOOLCHAIN=local
S=$(mktemp -d /var/tmp/cocasuite-XXXXXX)
trap 'chmod -R u+w "$S" 2>/dev/null; rm -rf "$S"' EXIT
git clone -q "$TREE" "$S/coca" || exit 2
# carry over uncommitted changes of the tree under test
(cd "$TREE" && git diff HEAD --binary) > "$S/wt.diff"
if [ -s "$S/wt.diff" ]; then (cd "$S/coca" && git apply --whitespace=nowarn "$S/wt.diff") || exit 2; fi
(cd "$S/coca" && go test -json -vet=off -count=1 -timeout 25m "$@" ./... > "$S/out.json" 2> "$S/err.txt")
# a stable test that fails is retried (its package only, twice): the suite has rare races between
# t.Parallel tests that share a parser; a test counts as passing if it passes in any attempt
for attempt in 1 2; do
  PK=$(python3 - "$S/out.json" <<'PY2'
import json,sys
base=set(json.load(open('/root/.vp/BASELINE.json'))['stable_pass'])
res={}
for f in sys.argv[1:]:
    for l in open(f):
        try: e=json.loads(l)
        except Exception: continue
        if e.get('Test') and e.get('Action')=='pass': res[e['Package']+'::'+e['Test']]=1
print(' '.join(sorted({k.split('::')[0] for k in base-set(res)})))
PY2
)
  [ -z "$PK" ] && break
  (cd "$S/coca" && git checkout -q -- _fixtures 2>/dev/null; go test -json -vet=off -count=1 -p 1 $PK >> "$S/out.json" 2>> "$S/err.txt")
done
python3 - "$S/out.json" <<'PY'
import json,sys
base=json.load(open('/root/.vp/BASELINE.json'))
stable=set(base['stable_pass'])
res={}
for l in open(sys.argv[1]):
    try: e=json.loads(l)
    except Exception: continue
    if e.get('Test') and e.get('Action') in ('pass','fail','skip'):
        k=e['Package']+'::'+e['Test']
        if res.get(k)!='pass': res[k]=e['Action']
passed={k for k,v in res.items() if v=='pass'}
failed={k for k,v in res.items() if v=='fail'}
missing=sorted(stable-passed)
print(f"passed={len(passed)} failed={len(failed)} stable_baseline={len(stable)} stable_missing={len(missing)}")
for f in sorted(failed): print("  FAIL", f)
for m in missing: print("  STABLE-NOT-PASSING", m)
sys.exit(1 if missing else 0)
PY
