#!/bin/bash
# Apply a patch to /repo's working tree, run quick checks, undo the patch.
#   scripts/try_patch.sh [-R] <patch.diff> <id> [<id>...]
# Prints "<id> exit=<code>" per check. The working tree is restored on every exit path.
REV=""
if [ "$1" = "-R" ]; then REV="-R"; shift; fi
PATCH=$(readlink -f "$1"); shift
cd /verif
if [ -n "$(git -C /repo status --porcelain)" ]; then echo "try_patch: /repo working tree is not clean" >&2; exit 2; fi
trap 'git -C /repo checkout -q -- . ; git -C /repo clean -fdq' EXIT
git -C /repo apply $REV --whitespace=nowarn "$PATCH" || { echo "try_patch: patch does not apply" >&2; exit 2; }
for id in "$@"; do
  out=$(VERIF_OUT_DIR=${VERIF_OUT_DIR:-/var/tmp/vsim-out} ./vsim check $id --tier ${TIER:-quick} 2>&1); code=$?
  echo "$out" | grep -E "^(VIOLATION|KNOWN-FINDING|violation class|vsim: harness|$id )" | head -12
  echo "$id exit=$code"
done
