#!/usr/bin/env python3
# Prints the prompt given to an independent sub-agent for one property: the property's text and its worktree, nothing from /verif.
import json,sys
pid, wt, extra = sys.argv[1], sys.argv[2], (sys.argv[3] if len(sys.argv)>3 else "")
for l in open('/verif/properties.jsonl'):
    p=json.loads(l)
    if p['id']==pid: break
print(f"""You are helping to evaluate a verification effort by playing the role of a realistic, subtle regression.

The project is phodal/coca (module github.com/modernizing/coca): a Go CLI toolbox for legacy-code analysis (ANTLR-based Java parsing into a code model, call graphs, bad-smell detection, git stats, simple refactors). You have your own scratch git worktree of it at {wt} — work ONLY inside that directory (never touch /repo or /verif, and do not read /verif).

Here is a semantic property of coca that must hold (JSON record, including where in the code it is anchored):

{json.dumps(p, indent=1)}

Your task: produce ONE change to coca's non-test Go source (a small diff, typically 1-15 lines, possibly two cooperating sites that each look fine alone) that BREAKS this property while
  (a) the project still compiles, and
  (b) the project's existing test suite still passes exactly as before (see below how to run it), and
  (c) the breakage needs something specific to manifest — a particular sequence of operations in one process, a particular order or combination of files, a second run, an unusual-but-valid input shape, a particular map iteration order, or two cooperating sites — i.e. NOT something that ordinary single use on a typical input would expose at once. {extra}
Make it look like a plausible maintenance mistake or "optimisation", not sabotage.

Also write a demonstration: a Go test file or small Go program (kept OUTSIDE the diff, e.g. under {wt}/demo_mutant/ or as an extra *_test.go file you list separately) that FAILS with your change and PASSES without it. Verify both directions yourself (use `git stash` / `git diff > patch` / `git apply -R`).

Practical notes for this sandbox (no network at all):
- every shell call needs: export GOFLAGS=-mod=mod GOPROXY=off GOSUMDB=off GOTOOLCHAIN=local
- run the existing suite from inside the worktree with: go test -vet=off -count=1 -p 1 ./...   (one test, pkg/application/todo TestNewTodoApp, always fails, also before your change; -p 1 matters because two packages share a fixture directory). The suite rewrites files under _fixtures/refactor and restores them with git; if `git status` shows leftovers under _fixtures or go.mod afterwards, restore them with `git checkout -- _fixtures go.mod go.sum` before producing your diff.
- the test suite must give the same pass/fail set with and without your change.
- `dot` (graphviz) is not installed; coca prints that failure and continues — ignore it.

Deliverables (write these files, then report their paths and a 5-line summary):
  {wt}/MUTANT/patch.diff      — `git diff` of the source change only (no test/demo files), applying cleanly to the worktree's HEAD with `git apply`
  {wt}/MUTANT/demo/           — the demonstration (test file(s) or program) plus a run.sh that runs it from the worktree root and exits non-zero when the property is broken
  {wt}/MUTANT/meta.json       — {{"property": "{pid}", "summary": "...", "needs_to_manifest": "...", "files_changed": [...], "how_verified": "commands you ran and what they printed"}}
Leave the worktree's source files in the UNMODIFIED state when you finish (the patch lives only in MUTANT/patch.diff).""")
