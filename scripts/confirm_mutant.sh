#!/bin/bash
# Confirm a sub-agent's mutant in its scratch worktree, then store it under /verif/seeded/<name>/.
#   scripts/confirm_mutant.sh <worktree> <name>
# Confirms: patch applies, tree builds, coca's suite keeps its baseline pass set (-p 1), the
# demonstration fails with the patch and passes without it.
set -u
WT=$1; NAME=$2
export GOFLAGS=-mod=mod GOPROXY=off GOSUMDB=off GOTOOLCHAIN=local
M=$WT/MUTANT
[ -f $M/patch.diff ] || { echo "no patch"; exit 2; }
cd $WT
git checkout -q -- . ; git status --porcelain | grep -v '^?? MUTANT' | grep -v '^??' && { echo "worktree dirty"; }
echo "== demo WITHOUT patch (must pass)"
bash $M/demo/run.sh > $M/demo_without.log 2>&1; w=$?
echo "exit=$w"
git checkout -q -- . 2>/dev/null
git apply --whitespace=nowarn $M/patch.diff || { echo "patch does not apply"; exit 2; }
echo "== build"
go build ./... || { echo "BUILD FAILS"; git checkout -q -- .; exit 1; }
echo "== demo WITH patch (must fail)"
bash $M/demo/run.sh > $M/demo_with.log 2>&1; p=$?
echo "exit=$p"
echo "== suite with patch"
/verif/scripts/suite.sh $WT -p 1 > $M/suite_with.log 2>&1; s=$?
tail -3 $M/suite_with.log
git checkout -q -- . ; git clean -fdq -e MUTANT >/dev/null 2>&1
if [ $w -eq 0 ] && [ $p -ne 0 ] && [ $s -eq 0 ]; then
  mkdir -p /verif/seeded/$NAME
  cp $M/patch.diff /verif/seeded/$NAME/patch.diff
  rm -rf /verif/seeded/$NAME/demo; cp -r $M/demo /verif/seeded/$NAME/demo
  cp $M/meta.json /verif/seeded/$NAME/agent_meta.json 2>/dev/null
  echo "CONFIRMED -> /verif/seeded/$NAME"
else
  echo "NOT CONFIRMED (without=$w with=$p suite=$s)"; exit 1
fi
