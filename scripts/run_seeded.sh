#!/bin/bash
# Run every stored seeded change against the check of the property it breaks (quick tier).
#   scripts/run_seeded.sh [name-prefix]
# Prints one line per change: CAUGHT / MISSED / NOAPPLY.
cd "$(dirname "$0")/.."
for d in seeded/${1:-}*/; do
  n=$(basename $d); id=$(python3 -c "import json;m=json.load(open('$d/meta.json'));print(m.get('check_with') or m['property'])" 2>/dev/null)
  [ -z "$id" ] && { echo "$n: no meta.json"; continue; }
  if ! git -C /repo apply --check "$PWD/$d/patch.diff" 2>/dev/null; then echo "NOAPPLY $n"; continue; fi
  out=$(scripts/try_patch.sh $d/patch.diff $id 2>&1)
  if echo "$out" | grep -q "$id exit=1"; then echo "CAUGHT  $n ($id): $(echo "$out" | grep 'violation class' | head -2 | tr '\n' ' ')";
  elif echo "$out" | grep -q "$id exit=0"; then echo "MISSED  $n ($id)"; else echo "ERROR   $n ($id): $(echo "$out" | tail -2)"; fi
done
