#!/bin/bash
# Rewrite-fidelity self-test: coca's own suite must pass on the copy in which maprw has installed the
# map-iteration seam, under the canonical schedule and under seeded shuffles of every iteration.
#   scripts/fidelity.sh [seed ...]      (default seeds: 1 2 3)
set -u
cd "$(dirname "$0")/.."
export GOFLAGS=-mod=mod GOPROXY=off GOSUMDB=off GOTOOLCHAIN=local CGO_ENABLED=0
./setup.sh >/dev/null || exit 2
S=$(mktemp -d /var/tmp/fidelity-XXXXXX)
trap 'chmod -R u+w "$S" 2>/dev/null; rm -rf "$S"' EXIT
git clone -q /repo "$S/coca" || exit 2
mkdir -p "$S/verifsim/simrt" && cp simrt/simrt.go "$S/verifsim/simrt/" && printf 'module verifsim.local\n\ngo 1.18\n' > "$S/verifsim/go.mod"
printf '\nrequire verifsim.local v0.0.0\n\nreplace verifsim.local => %s/verifsim\n' "$S" >> "$S/coca/go.mod"
bin/maprw "$S/coca" /languages/ > "$S/sites.txt" || exit 2
echo "fidelity: $(wc -l < "$S/sites.txt") sites rewritten"
# the clone must look clean to the tests that restore fixtures with `git checkout`
(cd "$S/coca" && git add -A && git -c user.email=v@v -c user.name=v commit -qm instrumented)
rc=0
run() { # name env...
  name=$1; shift
  if env "$@" scripts/suite.sh "$S/coca" -p 1 > "$S/$name.log" 2>&1; then echo "fidelity $name: $(head -1 "$S/$name.log")"; else echo "fidelity $name: FAILED"; cat "$S/$name.log"; rc=1; fi
}
run canonical VERIFSIM_TAIL=sorted
for seed in ${@:-1 2 3}; do run "seeded-$seed" VERIFSIM_TAIL=seeded VERIFSIM_SEED=$seed; done
run reverse VERIFSIM_TAIL=reverse
exit $rc
