#!/bin/bash
# Run stored seeded changes against the check of the property each breaks, N at a time, every one on its
# own scratch copy of /repo's working tree (VERIF_REPO) so that /repo itself is never touched.
#   scripts/par_seeded.sh [-j N] [name-prefix ...]
# Prints one line per change: CAUGHT / MISSED / NOAPPLY / ERROR.
cd "$(dirname "$0")/.."
J=3; if [ "$1" = "-j" ]; then J=$2; shift 2; fi
export GOFLAGS=-mod=mod GOPROXY=off GOSUMDB=off GOTOOLCHAIN=local CGO_ENABLED=0 VERIF_DIR="$PWD"
./setup.sh >/dev/null || exit 2
one() {
  d=$1; n=$(basename $d); id=$(python3 -c "import json;m=json.load(open('$d/meta.json'));print(m.get('check_with') or m['property'])" 2>/dev/null)
  [ -z "$id" ] && { echo "NOMETA  $n"; return; }
  S=$(mktemp -d /var/tmp/mutrepo-XXXXXX)
  rsync -a --exclude .git --exclude coca_reporter /repo/ $S/repo/
  if ! (cd $S/repo && git apply --whitespace=nowarn "$VERIF_DIR/$d/patch.diff" 2>/dev/null); then echo "NOAPPLY $n"; rm -rf $S; return; fi
  out=$(VERIF_MINIMISE=${VERIF_MINIMISE:-0} VERIF_REPO=$S/repo VERIF_OUT_DIR=$S/out bin/vsim check $id --tier ${TIER:-quick} 2>&1); code=$?
  cls=$(echo "$out" | grep 'violation class' | head -2 | sed 's/violation class: //' | tr '\n' ' ')
  case $code in
    1) echo "CAUGHT  $n ($id): $cls";;
    0) echo "MISSED  $n ($id)";;
    *) echo "ERROR   $n ($id) exit=$code: $(echo "$out" | tail -n 2 | tr '\n' ' ')";;
  esac
  rm -rf $S
}
export -f one
if [ $# -eq 0 ]; then set -- ""; fi
for p in "$@"; do ls -d seeded/${p}*/; done | sort -u | xargs -P $J -I{} bash -c 'one {}'
